#!/bin/bash
# validate MANIFEST.json and every evidence file against the given schemas (uses the tooling venv)
cd "$(dirname "$0")/.."
python3-vt - <<'P'
import json, jsonschema, glob, sys
ok = True
try:
    jsonschema.validate(json.load(open("MANIFEST.json")), json.load(open("/root/.vp/MANIFEST.schema.json")))
    print("MANIFEST.json valid")
except Exception as e:
    ok = False; print("MANIFEST.json INVALID:", str(e)[:500])
sch = json.load(open("/root/.vp/EVIDENCE.schema.json"))
for f in sorted(glob.glob("evidence/*.json")):
    try:
        jsonschema.validate(json.load(open(f)), sch); print(f, "valid")
    except Exception as e:
        ok = False; print(f, "INVALID:", str(e)[:500])
sys.exit(0 if ok else 1)
P
