#!/bin/bash
# usage: tools/run_all.sh <tier> [seed]   - runs every claimed check once, sequentially; summary on stdout
cd "$(dirname "$0")/.."
TIER="${1:-quick}"; SEED="${2:-}"
for c in C01 C02 C03 C04 C05 C06 C07 C08 C09 C11 C13 C14 C15 C16 C17 C18; do
  t0=$(date +%s)
  if [ -n "$SEED" ]; then VERIF_SEED=$SEED ./check $c --tier $TIER > /tmp/run_all_$c.$TIER.log 2>&1; else ./check $c --tier $TIER > /tmp/run_all_$c.$TIER.log 2>&1; fi
  rc=$?
  echo "$c tier=$TIER seed=${SEED:-default} exit=$rc $(( $(date +%s) - t0 ))s :: $(tail -1 /tmp/run_all_$c.$TIER.log | cut -c1-200)"
  grep -E "^VIOLATION|^HARNESS|^violation" /tmp/run_all_$c.$TIER.log | head -5 | cut -c1-300
done
