#!/usr/bin/env python3
"""Builds /verif/selftest/REPORT.md (catch matrix of the seeded changes) from seeded/*/meta.json and
selftest/mutants.jsonl (appended to by `./check selftest mutants`)."""
import json, os
ROOT = os.path.dirname(os.path.dirname(os.path.abspath(__file__)))
rows = {}
replays = {}
p = os.path.join(ROOT, "selftest", "mutants.jsonl")
if os.path.exists(p):
    for l in open(p):
        r = json.loads(l)
        if r["result"].startswith("replay"):
            replays[(r["seeded"], r["check"])] = r["result"]
            continue
        rows[(r["seeded"], r["check"])] = r  # last run wins
        replays.pop((r["seeded"], r["check"]), None)
out = ["# Sensitivity: seeded changes vs. checks", "",
       "Each seeded change (`/verif/seeded/<id>/`) was written by an independent sub-agent that saw only the text of one",
       "property and a scratch worktree, and was confirmed by the lead (demo flips, full test suite passes with the change).",
       "`./check selftest mutants [ids]` applies each to a scratch worktree and runs the listed checks (quick tier) with",
       "`VERIF_REPO` pointing at it; after a catch the replay file of the first violation is replayed in a fresh process",
       "against the changed tree (must fail the same way) and the unchanged tree (must not fail): \"replay ok\". Results of the last run:", "",
       "| seeded change | breaks | what it is | needs | check | result | first violation reported |", "|---|---|---|---|---|---|---|"]
for mid in sorted(os.listdir(os.path.join(ROOT, "seeded"))):
    mp = os.path.join(ROOT, "seeded", mid, "meta.json")
    if not os.path.exists(mp):
        continue
    m = json.load(open(mp))
    checks = m.get("checks") or []
    if not checks:
        out.append("| %s | %s | %s | %s | - | **not caught (by design)** | see needs |" % (
            mid, m["property"], m["change"].replace("|", "/"), m["needs_to_manifest"].replace("|", "/")))
    for c in checks:
        r = rows.get((mid, c))
        res = r["result"] if r else "not run"
        if (mid, c) in replays:
            res += "; " + replays[(mid, c)]
        fv = (r["first_violation"] if r else "").replace("|", "/")
        fv = fv[fv.find("clause="):][:150] if "clause=" in fv else fv[:150]
        out.append("| %s | %s | %s | %s | %s | %s | %s |" % (mid, m["property"], m["change"].replace("|", "/"), m["needs_to_manifest"].replace("|", "/"), c, res, fv))
os.makedirs(os.path.join(ROOT, "selftest"), exist_ok=True)
open(os.path.join(ROOT, "selftest", "REPORT.md"), "w").write("\n".join(out) + "\n")
print("\n".join(out[-40:]))
