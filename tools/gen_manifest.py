#!/usr/bin/env python3
"""Generates MANIFEST.json from the table below (kept in one place so that it stays valid)."""
import json, os

ROOT = os.path.dirname(os.path.dirname(os.path.abspath(__file__)))
TECH = "deterministic simulation with fault injection: "

CHECKS = {}

def add(pid, engine, category, text, note, technique, design):
    CHECKS[pid] = {
        "property_id": pid,
        "quick_cmd": "timeout 900 ./check %s --tier quick" % pid,
        "thorough_cmd": "timeout 14400 ./check %s --tier thorough" % pid,
        "evidence_file": "evidence/%s.json" % pid,
        "replay_cmd_template": "./check %s --replay {path}" % pid,
        "engine": engine,
        "level_claimed": {"category": category, "text": text, "design_ref": design},
        "level_note": note,
        "technique": TECH + technique,
    }

add("C14", "P", "exploration",
    "Seeded histories of public run_model_no_trade / world calls (order, repetition, shared titles, aborted jobs, "
    "clock events) executed in one process; every clean job's full result digest is compared bit-exactly with the same "
    "job run alone in an idle process (forked, and on a sample in a fresh interpreter under skewed PYTHONHASHSEED/TZ/"
    "locale); returned objects are re-digested at the end of the history. Sampling, not proof.",
    "Trusted: CBC determinism for a fixed MPS file, GitPython/pandas/numpy, the harness's digest function covering "
    "every Food series, headline and herd dictionaries of the returned Interpreter.",
    "seeded job-order/fault histories in one process vs. fresh-process reference, exact digest comparison", "DESIGN.md 5/C14")

add("C01", "P", "exploration",
    "Every LP the real pipeline solves in seeded histories (all option families, horizons 48..120, overrides, country and world "
    "jobs) is audited against an independent monthly ledger built from the captured supplies only (stored food, crops, meat, SCP, "
    "sugar, seaweed growth ledger, non-negativity, exhaustion, charge equalities / ceilings / monotone feed). The solver channel "
    "is explored: real CBC, or a seeded random vertex of the optimal face (HiGHS stand-in), plus solver faults (cannot run, non-optimal "
    "status with or without a written iterate, biased to the first and the secondary solves of each round, faulted job usually first and "
    "often followed by a retry of the same country with one setting changed). Sampling.",
    "Trusted: the ledger re-implementation in sim/monitors.py (written from the property text), row-scaled tolerance 1e-6, HiGHS as "
    "a legal stand-in for CBC in vertex mode. Known finding F01a (meat eaten before slaughter) is suppressed only when the documented rule holds.",
    "seeded histories on the real pipeline with solver-vertex/fault exploration, independent ledger-audit monitor", "DESIGN.md 5/C01")
add("C02", "P", "exploration",
    "Workload-driven reference-model check: for every LP instance that real seeded runs produce (round-2/3 instances only exist "
    "inside real runs) the reported optimum is compared (5e-5 relative) with an LP formulated independently in matrix form "
    "(prefix-sum ledgers, no stock variables, intake caps, charges, pins, objective) and solved by HiGHS - in two steps: the LP exactly as "
    "the code hands it to its solver (captured at the solver seam, solved by HiGHS) vs. the reference (formulation, 5e-5, confirmed at 1e-9), "
    "and the figure reported from CBC vs. the optimum of that same LP (solver accuracy, 1e-3); a second reference with "
    "the physical meat ledger decides physical achievability. The simulator contributes instance supply and fail-stop relaxation "
    "only: the optimum does not depend on schedule or vertex.",
    "Trusted: the reference formulation (sim/reflp.py) and HiGHS; two HiGHS solves of equivalent LPs agree to 1.3e-5 relative, CBC at its "
    "default tolerances is up to 1.4e-4 short of the optimum of its own LP (WOR + seaweed), see DESIGN.md 13.3.",
    "reference-model oracle (independent LP, different solver) riding on seeded simulated runs", "DESIGN.md 5/C02")
add("C03", "P", "exploration",
    "Relation over the recorded three-round history of seeded jobs (threshold T randomised 0..100, cbc or random optimal vertex, "
    "buggified round-2 skip): starving => no feed and final >= no-feed round; round 1 reaches T => final >= T; feed/biofuel within an "
    "independent demand-schedule model and zero from the shut-off month, in every round and month. Sampling.",
    "Trusted: demand model (annual/12*4e6/1e9 until shut-off), slack eps=max(0.1,1e-3*T). Three recorded class findings (F02, F03) are "
    "matched by mechanism tags so that other failures of the same clauses still alarm.",
    "seeded histories with solver-vertex exploration and buggified branches; history-relation monitor", "DESIGN.md 5/C03")
add("C04", "P", "exploration",
    "For every round of seeded jobs: each reported contribution is recomputed from raw variable values, headline = min over months of "
    "their sum, headline within 0.01 % of the optimiser's optimum, crop split adds up, and the CSV read back through the simulated FS "
    "when interpret_results returns equals the returned series exactly; at the end of each history every path holds its last "
    "writer's numbers. Faults: result-write errors and short writes (job must raise), clock jumps between the six clock reads, "
    "shared / timestamped / odd titles, solver faults, alternative optimal vertices.",
    "Trusted: pandas round-trip parsing, the recomputation in sim/monitors.py, SimFS ordering of writes.",
    "seeded histories with disk/clock/solver fault injection; recomputation + read-back monitor", "DESIGN.md 5/C04")
add("C05", "P", "exploration",
    "Every herd run of seeded jobs is paired (through the object handed to init_meat_and_dairy_and_feed_from_breeding) with the series "
    "the optimiser of that round received: meat month by month (rounds 1, 3) or in total (round 2) and milk against an independent "
    "per-head yield table x slaughter / herd lists; charge >= feed eaten; grass within supply; zero charge => zero feed. The round-3 "
    "herd run consumes the vertex-dependent round-2 allocation; table-read faults on the 15 reads per job.",
    "Trusted: per-head table written from the documentation (validated to 1e-15 on the unchanged tree).",
    "seeded histories with solver-vertex exploration and table-read faults; independent yield-table monitor", "DESIGN.md 5/C05")
add("C16", "P", "exploration",
    "Batch liveness over the fixed grid (164 countries + world) x (13 shipped YAML scenarios, 12+5 manuscript presets, single-option "
    "variations of two bases each = 14995 cells): cells run in long histories inside long-lived processes, with 0-2 injected faults "
    "on the first jobs; every non-faulted job must complete with all built-in validators passing and a finite, non-negative headline, "
    "in particular every job after the last fault. Quick samples ~900 cells; thorough enumerates the whole grid (exhaustive: true).",
    "Trusted: real CBC. Cells that genuinely fail are listed one by one in known_findings.jsonl (identity = country + preset).",
    "long seeded job histories with early fault injection (progress after faults stop); grid enumeration in the thorough tier", "DESIGN.md 5/C16")
add("C18", "P", "exploration",
    "The hand-off objects of seeded real runs are captured at the helper boundaries: minimum human consumption sums to min(no-feed "
    "result, T) each month, is bounded by round-1 consumption and filled in the documented priority order; re-timed meat keeps its "
    "total, stays non-negative and at or above the no-feed level; the final adjustment never lowers feed/biofuel nor raises one above "
    "max(input, demand). The round-1 vertex (cbc or seeded random optimal vertex) determines every hand-off; a buggified later-shifted "
    "round-2 meat series gives the re-timing helper work to do. The 'arbitrary arrays' quantifier is not covered (N/A clause).",
    "Trusted: arithmetic in sim/monitors.py; 1e-9 relative.",
    "seeded histories with solver-vertex exploration and buggified hand-offs; boundary-capture monitor", "DESIGN.md 5/C18")

add("C11", "A", "exploration",
    "Stateful operation machine over a pool of <= 6 real Food objects: seeded op sequences (construct, + - * /, negation, indexing, "
    "month extraction, sums, running sums, min/max, elementwise min, rounding, clipping, shift, conversions, the comparison predicates) "
    "interleaved with environment ops that flip the process-wide fat/protein inclusion flags and change population / daily needs "
    "(what another job does between two uses of a quantity). After every op a reference label algebra (numbers, three labels, shape) is "
    "compared: labels, units-list consistency, operands bit-identical to snapshots, mixed units refused, numbers at 1e-12, predicate "
    "on a scalar == predicate on its one-month series under all four flag settings. ~97k ops quick, ~1.9M thorough.",
    "Trusted: the reference label rules in sim/engine_a.py (from the property statement, class docstrings and shipped tests). Ops the "
    "class refuses are counted, not flagged. Seven genuine defects found here were repaired by fix: commits (known_findings.jsonl).",
    "seeded stateful op/environment sequences against a reference model, with shrinking", "DESIGN.md 5/C11")
add("C13", "O", "fault_enumeration",
    "The option dictionary is treated as a bag of messages to the Scenarios node; message faults: drop a family, unknown value, unknown "
    "extra key, permuted order, duplicate setter call (all ordered pairs within a family, cross-family pairs), the same caller "
    "dictionary for two countries, numeric overrides (every species column x country through the herd-table read seam); node fault: the stubbed downstream "
    "pipeline fails transiently for one message (fail-stop = no verdict; a dispatcher that carries on is judged on what it delivers), "
    "then a clean message for the same country. Oracle: "
    "documented option table (README + setter docstrings) -> exact constants diff; rejection before compute_parameters_first_round can "
    "be reached; caller dictionary deep-equal to its snapshot; override changes exactly its target. Thorough enumerates the single-fault "
    "space exhaustively (exhaustive: true); quick = fixed core + seeded sample.",
    "Trusted: the reference option table in sim/engine_o.py; where the README is silent the setter body is a regression pin. Four genuine "
    "defects found here were repaired by fix: commits (known_findings.jsonl).",
    "exhaustive single-fault enumeration over option messages + seeded setter histories, reference option table", "DESIGN.md 5/C13")

add("C15", "G", "exploration",
    "The real coordinator run_model_no_trade runs inside the simulator while the per-country worker is replaced by a seeded stub "
    "returning ratios from {0, (0,1), 1 +- 10^-k, >1, NaN}; NaN is the failed-worker fault; further faults: a transient worker exception "
    "(first visit of a country raises) and a transient torn read of the country table (the call that meets it gets no verdict, later calls do). Selections: empty, inclusion, exclusion, "
    "mixed, unknown codes, duplicates, SWT; population overridden through the option dictionary. Reference model from the statement: "
    "run set semantics, net_pop, net_pop_fed = sum pop*min(1, ratio), bounds, every run country once in results, worker called once per "
    "country. A slice of histories uses the real worker (2-4 countries) to validate that the stub boundary carries the same values.",
    "Trusted: reference selection/mean model in sim/checks/c15.py; for mixed lists only the invariants are demanded (the statement fixes "
    "no run set); a failed (NaN) country is absent from results by the coordinator's contract.",
    "coordinator real, per-country worker stubbed with seeded ratios and failures; reference aggregation model", "DESIGN.md 5/C15")

add("C06", "H", "exploration",
    "Engine H drives the real monthly herd state machine animal_populations.main(..., remove_first_month=0) with real tables; the "
    "simulator plays the environment of the monthly loop and decides every month's feed and grass delivery from a seeded fault stream "
    "(normal, lost, half, double, burst, delayed, cut off, restored), over countries, the three breeding strategies, horizons 24-120, "
    "perturbed head counts and both serving orders. Oracle on the returned per-species lists: head-count ledger with zero clamp, all "
    "flows finite and non-negative, dairy-to-meat transfer identity, labour budget per size class, slaughter <= available, target floor.",
    "Trusted: the list alignment established in sim/engine_h.py (checked on every run by the list_alignment clause), 1e-9 relative + 1e-6 "
    "head. One genuine defect (negative births) was repaired by a fix: commit.",
    "monthly state machine stepped under seeded delivery faults; independent ledger monitor", "DESIGN.md 5/C06")
add("C07", "H", "exploration",
    "Same engine; AnimalSpecies.feed_the_species is wrapped at run time and every call is recorded (supply before/after, requirement, "
    "balance, fed count, herd, ruminant flag, serving position). Oracle: used <= supplied per call and month, net energy delivered <= "
    "requirement, grass only to ruminants, strict priority order (and the documented order key when a per-head table is given), fed <= "
    "herd, fed == herd iff requirement met, otherwise herd x delivered/required, starving = herd - fed >= 0 on the value appended for "
    "that month (stale per-species state across months is the target).",
    "Trusted: digestion efficiencies 0.6/0.8 read from the code and confirmed by the tests; rounding to the nearest head accepted. Two "
    "genuine defects (partially-fed over-count, stale fed count of an empty herd) were repaired by fix: commits.",
    "monthly state machine stepped under seeded delivery faults; per-call energy-accounting monitor", "DESIGN.md 5/C07")
add("C17", "I", "exploration",
    "The 21 import scripts run as real subprocesses on a scratch copy of src/ and data/ (git-initialised, outside /repo and /verif, removed "
    "afterwards): documented order, seeded topological orders of the measured dependency DAG, crash of a script with a torn output file "
    "followed by a full re-run, re-run on a dirty processed_data/ (garbage, stale, leftovers, out-of-order runs), double runs, skewed "
    "PYTHONHASHSEED/TZ/locale. After the final pass all 20 processed files and the combined table must be byte-identical to the shipped "
    "ones, and the produced table passes an independent audit (164 codes once, no NaN, seasonality sums to 1, fractions in [0,1], "
    "reductions >= -1, quantities >= 0). The averaging-helper clause is not covered (pure function, N/A clause).",
    "Trusted: the measured DAG (re-measured under strace in history 0), a crash modelled as completion followed by truncation to b bytes.",
    "multi-stage file pipeline under seeded order/crash/dirty-state faults; byte comparison + table audit", "DESIGN.md 5/C17")

add("C08", "P0", "exploration",
    "Workload-driven reference-model check: engine P0 runs the real code up to compute_parameters_first_round for seeded country and "
    "world jobs (all option families, horizons, overrides) with per-job randomised model-time timers (DELAY entries, shut-off months); "
    "histories contain scaling twins (one baseline column x factor through the documented override route), delay twins, calendar "
    "one-hot and year-block probes. Oracle: a reference calendar/timer model written from the documentation (May start, year blocks "
    "8,12,...,12+4, seasonality rotation, harvest-before-May rule, relocation exponent, area ramp, fish, grass, demand schedules, "
    "seaweed area and growth factors, initial stored food) at 1e-12; SCP and cellulosic sugar structurally (delay, monotone ramp, cap, "
    "exact scaling, delay shift). The simulator contributes workload and timer randomisation only.",
    "Trusted: the reference calendar model in sim/checks/c08.py (residual vs the code <= 1.1e-15 where it agrees). The 'generated vectors "
    "via direct calls' quantifier is not covered. Known findings F05 (SCP double delay, pinned by a shipped test) and F06 (grass year of "
    "the last four months of a short horizon); one defect (world grass unit) repaired by a fix: commit.",
    "reference calendar/timer model riding on seeded runs with randomised model-time timers and paired jobs", "DESIGN.md 5/C08")
add("C09", "P0", "exploration",
    "Same engine; OutdoorCrops is observed between calculate_monthly_production and set_crop_production_minus_greenhouse_area. Oracle: "
    "production = grown x (1 - greenhouse fraction) x (1 - distribution waste); greenhouse fraction zero until its delay (documented ramp: "
    "delay + 5 months, 36 months linear, cap), non-decreasing, <= configured share; relocated / expanded scenarios never lower any month "
    "(paired jobs in one history); no quantisation (floating dtype, not on an integer lattice when the grown amount is not), probed on "
    "small countries and scaled-down baselines. Workload-driven; the simulator contributes pairing and timer randomisation.",
    "Trusted: the land-accounting identity in sim/checks/c09.py. Two genuine defects (integer truncation with relocated crops, greenhouse "
    "land counted twice without relocation) were repaired by fix: commits.",
    "land-accounting identity and paired-job dominance monitors on seeded runs", "DESIGN.md 5/C09")

NOT_APPLICABLE = [
    {"property_id": "C10", "reason": "pure function of (value, unit names, four settings); nothing to schedule, fail or interleave - property-based enumeration is the right tool, outside this technique family (DESIGN.md 6)"},
    {"property_id": "C12", "reason": "relates the optimum of one LP to optima of perturbed copies: counterfactual re-solves of a pure function, not behaviour under any schedule or fault (DESIGN.md 6)"},
]
PENDING = {
}

def main():
    props = [json.loads(l)["id"] for l in open(os.path.join(ROOT, "properties.jsonl"))]
    na = list(NOT_APPLICABLE)
    for p in props:
        if p not in CHECKS and p not in [x["property_id"] for x in na]:
            na.append({"property_id": p, "reason": PENDING.get(p, "not claimed yet: check under construction in this build (see DESIGN.md 12 build order)")})
    man = {
        "version": 1,
        "setup_cmd": "/venv/bin/python -c 'import pulp, scipy, numpy, pandas, yaml, git; print(\"deps ok\")' && chmod +x /verif/check",
        "hooks": {
            "guard": "ALLFED_INTEGRATED_MODEL_VERIF",
            "enable": "no hooks are needed: every seam is a module attribute / method replaced at run time inside the simulator process; the guard name is reserved and unused",
            "baseline_off_cmd": "cd /repo && /venv/bin/python -m pytest -ra -q -p no:cacheprovider --timeout=900 --continue-on-collection-errors",
            "source_commits": [],
            "add_only": True,
        },
        "engines": [
            {"name": "A", "path": "sim/engine_a.py", "serves_properties": ["C11"], "kind_free_text": "stateful op machine over real Food objects with environment (process-wide flag) ops and a reference label algebra"},
            {"name": "G", "path": "sim/engine_g.py", "serves_properties": ["C15"], "kind_free_text": "real multi-country coordinator with the per-country worker replaced by a seeded stub (real in a sampled slice)"},
            {"name": "H", "path": "sim/engine_h.py", "serves_properties": ["C06", "C07"], "kind_free_text": "real monthly herd state machine stepped under seeded feed/grass delivery faults, with a call recorder on feed_the_species"},
            {"name": "I", "path": "sim/engine_i.py", "serves_properties": ["C17"], "kind_free_text": "the 21 import scripts as real subprocesses on a scratch copy; order, crash/torn-output and dirty-directory faults"},
            {"name": "O", "path": "sim/engine_o.py", "serves_properties": ["C13"], "kind_free_text": "option-message fault enumeration against the real dispatcher/setters; pipeline stubbed after dispatch"},
            {"name": "P0", "path": "sim/engine_p0.py", "serves_properties": ["C08", "C09"], "kind_free_text": "real code up to compute_parameters_first_round (no LP) with randomised model-time timers and paired jobs"},
            {"name": "P", "path": "sim/engine_p.py", "serves_properties": ["C01", "C02", "C03", "C04", "C05", "C14", "C16", "C18"], "kind_free_text": "real pipeline (dispatch, parameters, 3 LP rounds, extract/interpret/validate, herd simulator, PuLP+CBC) inside simulated clock / results FS / solver seam with fault injection"},
        ],
        "checks": [CHECKS[k] for k in sorted(CHECKS)],
        "not_applicable": na,
        "notes": "All checks: ./check <ID> [--tier quick|thorough] [--replay FILE]; VERIF_SEED, VERIF_TIER, VERIF_REPO honoured; exit 0 held / 1 VIOLATION / 2 HARNESS-ERROR. Known findings: known_findings.jsonl.",
    }
    with open(os.path.join(ROOT, "MANIFEST.json"), "w") as f:
        json.dump(man, f, indent=1)
    print("wrote MANIFEST.json with", len(CHECKS), "checks;", len(na), "not applicable/pending")

if __name__ == "__main__":
    main()
