#!/usr/bin/env python3
"""Generates MANIFEST.json from the table below (kept in one place so that it stays valid)."""
import json, os

ROOT = os.path.dirname(os.path.dirname(os.path.abspath(__file__)))
TECH = "deterministic simulation with fault injection: "

CHECKS = {}

def add(pid, engine, category, text, note, technique, design):
    CHECKS[pid] = {
        "property_id": pid,
        "quick_cmd": "timeout 900 ./check %s --tier quick" % pid,
        "thorough_cmd": "timeout 14400 ./check %s --tier thorough" % pid,
        "evidence_file": "evidence/%s.json" % pid,
        "replay_cmd_template": "./check %s --replay {path}" % pid,
        "engine": engine,
        "level_claimed": {"category": category, "text": text, "design_ref": design},
        "level_note": note,
        "technique": TECH + technique,
    }

add("C14", "P", "exploration",
    "Seeded histories of public run_model_no_trade / world calls (order, repetition, shared titles, aborted jobs, "
    "clock events) executed in one process; every clean job's full result digest is compared bit-exactly with the same "
    "job run alone in an idle process (forked, and on a sample in a fresh interpreter under skewed PYTHONHASHSEED/TZ/"
    "locale); returned objects are re-digested at the end of the history. Sampling, not proof.",
    "Trusted: CBC determinism for a fixed MPS file, GitPython/pandas/numpy, the harness's digest function covering "
    "every Food series, headline and herd dictionaries of the returned Interpreter.",
    "seeded job-order/fault histories in one process vs. fresh-process reference, exact digest comparison", "DESIGN.md 5/C14")

NOT_APPLICABLE = [
    {"property_id": "C10", "reason": "pure function of (value, unit names, four settings); nothing to schedule, fail or interleave - property-based enumeration is the right tool, outside this technique family (DESIGN.md 6)"},
    {"property_id": "C12", "reason": "relates the optimum of one LP to optima of perturbed copies: counterfactual re-solves of a pure function, not behaviour under any schedule or fault (DESIGN.md 6)"},
]
PENDING = {
}

def main():
    props = [json.loads(l)["id"] for l in open(os.path.join(ROOT, "properties.jsonl"))]
    na = list(NOT_APPLICABLE)
    for p in props:
        if p not in CHECKS and p not in [x["property_id"] for x in na]:
            na.append({"property_id": p, "reason": PENDING.get(p, "not claimed yet: check under construction in this build (see DESIGN.md 12 build order)")})
    man = {
        "version": 1,
        "setup_cmd": "/venv/bin/python -c 'import pulp, scipy, numpy, pandas, yaml, git; print(\"deps ok\")' && chmod +x /verif/check",
        "hooks": {
            "guard": "ALLFED_INTEGRATED_MODEL_VERIF",
            "enable": "no hooks are needed: every seam is a module attribute / method replaced at run time inside the simulator process; the guard name is reserved and unused",
            "baseline_off_cmd": "cd /repo && /venv/bin/python -m pytest -ra -q -p no:cacheprovider --timeout=900 --continue-on-collection-errors",
            "source_commits": [],
            "add_only": True,
        },
        "engines": [
            {"name": "P", "path": "sim/engine_p.py", "serves_properties": ["C01", "C02", "C03", "C04", "C05", "C14", "C16", "C18"], "kind_free_text": "real pipeline (dispatch, parameters, 3 LP rounds, extract/interpret/validate, herd simulator, PuLP+CBC) inside simulated clock / results FS / solver seam with fault injection"},
        ],
        "checks": [CHECKS[k] for k in sorted(CHECKS)],
        "not_applicable": na,
        "notes": "All checks: ./check <ID> [--tier quick|thorough] [--replay FILE]; VERIF_SEED, VERIF_TIER, VERIF_REPO honoured; exit 0 held / 1 VIOLATION / 2 HARNESS-ERROR. Known findings: known_findings.jsonl.",
    }
    with open(os.path.join(ROOT, "MANIFEST.json"), "w") as f:
        json.dump(man, f, indent=1)
    print("wrote MANIFEST.json with", len(CHECKS), "checks;", len(na), "not applicable/pending")

if __name__ == "__main__":
    main()
