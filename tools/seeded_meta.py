#!/usr/bin/env python3
"""Writes /verif/seeded/<id>/meta.json from the table below + confirm.json (written by confirm_mutant.sh)."""
import json, os
ROOT = os.path.join(os.path.dirname(os.path.dirname(os.path.abspath(__file__))), "seeded")
M = {
 "C01-m1": ("C01", ["C01"], "no-storage meat cap uses the running slaughter total (add_meat_to_model_no_storage)",
            "stock regime no_stored_between_years / baseline_no_stored_between_years together with cull: do_eat_culled; default regimes never reach the changed function"),
 "C01-m2": ("C01", ["C01", "C14"], "retail-waste gross-up factor memoised in a class-level dict shared by all Optimizer instances",
            "two model runs in ONE process whose WASTE_RETAIL differs (several countries with waste *_in_country in one call, or two waste options back to back); the first run of a process is always clean"),
 "C04-m1": ("C04", ["C04"], "minimum-starvation floor written as objective - 0.005 instead of objective * 0.99995",
            "a run whose optimum is below 50 % fed (shortfall 0.005/optimum > 0.01 %); baseline_USA stays within tolerance"),
 "C04-m2": ("C04", ["C04"], "saved CSV zeroes the stored_food column unless STORE_FOOD_BETWEEN_YEARS (wrong flag instead of ADD_STORED_FOOD)",
            "ratio_stocks_untouched: no_stored_between_years with stored_food: baseline and a country that starts with stocks; returned object unaffected, only the file"),
 "C05-m1": ("C05", ["C05"], "milking-herd size cached on the Parameters object in round 1 and reused in rounds 2 and 3",
            "a country whose pasture cannot carry its dairy herd (feed changes the milking herd: 13 of 164 countries in the baseline scenario) and a scenario where all three rounds run"),
 "C05-m2": ("C05", ["C05"], "'small animals other than chicken' rewritten as a species list that omits other_rodents (guinea pigs)",
            "a herd containing other_rodents: only Bolivia, Peru and the world aggregate"),
 "C14-m1": ("C14", ["C14"], "per-person nutrition requirements in the class-level Food.conversions refreshed only when kcals_daily changes",
            "an in-process history mixing nutrition: baseline and nutrition: catastrophe, and looking at a fat or protein series (headline and kcals untouched)"),
 "C14-m2": ("C14", ["C14"], "the 'known to fail' scenario correction (shutoff: immediate) is written into the caller's option dictionary",
            "a trigger country (SLV/ALB with seaweed or all_resilient_foods and a continued/delayed shutoff, or ECU) followed in the same batch / a later call by a country that feeds > 100 % using the same dictionary"),
 "C18-m1": ("C18", ["C18"], "fill_negatives_with_positives fills its argument in place (np.asarray instead of np.array), so the re-timing adjustment is always zero",
            "round-2 meat total >= round-1 total but some month of round 2 below round 1 (rare in real runs: PAK nuclear winter, long_delayed_shutoff, dont_eat_culled, reduce_breeding)"),
 "C18-m2": ("C18", ["C18"], "daily ceiling computed as KCALS*min(pct,100)/100*threshold/100 instead of KCALS*min(pct,threshold)/100",
            "threshold below 100 (…_after_10_percent_fed or the numeric override) and a no-feed result below 100 %"),
 "C03-m1": ("C03", ["C03", "C18"], "an extra T/100 factor in the minimum-needs pin when round 1 does not reach the threshold",
            "T < 100 and a country whose no-feed optimum is below T (JPN, GBR, FRA at T=50); T=100 unchanged"),
 "C03-m2": ("C03", ["C03"], "`DELAY.get(...) or NMONTHS` swallows a configured shut-off month of 0",
            "shutoff: immediate and a country whose no-feed optimum exceeds 100 % (ARG, AUS, BRA, … 9 of 164 under nuclear winter)"),
 "C02-m1": ("C02", ["C02"], "shortcut that skips the feed/biofuel share caps of resilient foods when the cap is 100 % (in round 2 the caps are relative to a zero series, so 100 % of 0 is a real bound)",
            "methane SCP or cellulosic sugar in the scenario, shutoff continued / continued_after_10_percent_fed, a country not already at its biofuel ceiling; only the feed-maximising round is wrong"),
 "C02-m2": ("C02", ["C02", "C01"], "seaweed counted in tonnes instead of kcals in the biofuel total (SEAWEED_KCALS factor dropped in get_biofuel_sum)",
            "seaweed in the scenario, biofuel demand still positive once seaweed is produced (continued shut-off schedules), a coastal country that round 2 granted biofuel; only round 3"),
 "C06-m1": ("C06", ["C06"], "pregnancies computed from the un-clamped 'births needed' (baseline births themselves still clamped at 0)",
            "a meat herd whose dairy counterpart sends in more animals than it loses at baseline: 6 of 198 herds (BGR/GEO meat_buffalo, MLI meat_sheep, MKD/MDA/BLR meat_goat); month 0 only"),
 "C06-m2": ("C06", ["C06"], "'empty herd' early return in calculate_animal_population drops incoming births and dairy transfers of a herd that starts a month at exactly 0 head",
            "a herd at exactly zero at the start of a month while births/transfers still arrive: feed_only_ruminants or reduced strategies once a meat herd is exhausted"),
 "C07-m1": ("C07", ["C07"], "under feed_only_ruminants feed_animals() is handed the ruminants list instead of all animals",
            "breeding strategy feed_only_ruminants (used by no shipped YAML and no test) plus some feed"),
 "C07-m2": ("C07", ["C07", "C14"], "per-head energy requirement cached in a module-level dict keyed by animal type, ignoring the country's regional LSU factor",
            "at least two countries run in the same process, the later one in a different livestock-unit region; the first country of a process is exactly right"),
 "C08-m1": ("C08", ["C08"], "'annual minimum' of the stock buffer taken over April-December only",
            "a country whose strict stock minimum falls in January-March (ALB, BOL, CHL, IRN, LAO, PER, URY) with stored_food baseline and a non-zero untouched share"),
 "C08-m2": ("C08", ["C08"], "crop disruption year blocks cut to the simulated years (last simulated year gets the extra 4 months)",
            "horizon below 120 months with a nuclear-winter crop disruption; only the last four simulated months; identical at 120 months"),
 "C09-m1": ("C09", ["C09"], "two cooperating edits: no-greenhouse branch returns an integer zero array as greenhouse fraction and the relocation buffer is allocated with zeros_like(it)",
            "resilient-food set relocated_crops (relocation on, greenhouses off), visible on small producers"),
 "C09-m2": ("C09", ["C09"], "greenhouse area refactored around a normalised scale-up curve; the zero-cropland guard moved below the point where the cropland share is set",
            "a country with zero cropland but non-zero crop production (only SGP) and a scenario with greenhouses"),
 "C16-m1": ("C16", ["C16"], "the round-2 abort test (meat with feed lower than without) gets a 1 % tolerance, so small deficits reach the redistribution assertion",
            "a cell where round-2 meat is below round-1 meat by between 0 and 1 % (after the repository's fix: commits: e.g. LSO under the example scenario with reduce_breeding)"),
 "C16-m2": ("C16", ["C16"], "the 20 kcal/person/day reduction of round-2 feed/biofuel is skipped exactly in the no-storage regime (missing 'not')",
            "a preset with ratio_stocks_untouched: no_stored_between_years and a sensitive country (NIC, CAF, URY, NZL under 'No Adaptations'; world under figure 3 'no adaptations')"),
 "C17-m1": ("C17", ["C17"], "create_meat_per_animal_csv.py takes its country filter from milk_per_animal_csv.csv instead of head_count_csv.csv (undeclared dependency)",
            "an order with the meat script before the milk script (valid for the original code) and a missing or truncated milk_per_animal_csv.csv; the documented pass stays byte-identical"),
 "C17-m2": ("C17", [], "vectorised averaging helper masks impossible values by multiplication (inf * 0 = nan)",
            "a percentage vector containing +-inf next to a valid weighted value; never occurs in the 1630 helper calls of the real pipeline. NOT CAUGHT by design: the averaging-helper clause of C17 is a pure function over arbitrary vectors and is declared not applicable for this technique (DESIGN.md 6)"),
 "C11-m1": ("C11", ["C11"], "units assertion of Food.__truediv__ moved behind the monthly-series return",
            "both operands monthly series with different label triples and the operator '/'"),
 "C11-m2": ("C11", ["C11"], "monthly all_less_than_or_equal_to uses exclude_fat for the protein clause",
            "the two inclusion flags differ, a series operand, protein the only nutrient that exceeds"),
 "C13-m1": ("C13", ["C13", "C14"], "the known-to-fail correction (shutoff: immediate) is applied to the caller's option dictionary before copying",
            "ALB/SLV (or ECU) with their trigger options, and the dictionary inspected after the call or re-used for later countries"),
 "C13-m2": ("C13", ["C13"], "head-count override written before SWT is mapped to SWZ",
            "country Eswatini (SWT) together with any <species>_head override"),
 "C15-m1": ("C15", ["C15"], "the cap at 1 is only applied to countries that have a polygon on the map (fill_data_for_map returns the capped ratio)",
            "a selected country without a polygon in naturalearth_lowres (BHR, BRB, CPV, MUS, SGP, MLT) that is more than 100 % fed"),
 "C15-m2": ("C15", ["C15"], "the parsed country selection accumulates on the runner object",
            "a sequence of runs on the same ScenarioRunnerNoTrade object with at least two different non-empty countries_list values"),
}
for mid, (prop, checks, what, needs) in M.items():
    d = os.path.join(ROOT, mid)
    if not os.path.exists(os.path.join(d, "patch.diff")):
        continue
    conf = {}
    if os.path.exists(os.path.join(d, "confirm.json")):
        conf = json.load(open(os.path.join(d, "confirm.json")))
    old = {}
    if os.path.exists(os.path.join(d, "meta.json")):
        old = json.load(open(os.path.join(d, "meta.json")))
    meta = dict(old)
    meta.update({"id": mid, "property": prop, "checks": checks, "change": what or old.get("change", ""), "needs_to_manifest": needs or old.get("needs_to_manifest", ""),
            "origin": "written by an independent sub-agent that saw only the property text and a scratch worktree of the repository",
            "confirmed": {
                "how": "tools/confirm_mutant.sh in a scratch worktree of /repo HEAD: demo.py exit 0 without the patch and exit 1 with it; full baseline pytest command with the patch applied",
                **conf},
            })
    json.dump(meta, open(os.path.join(d, "meta.json"), "w"), indent=1)
    print("meta", mid)
