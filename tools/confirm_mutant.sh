#!/bin/bash
# usage: confirm_mutant.sh <source dir with patch.diff demo.py notes.md> <seeded id> <property> [fulltests]
# Confirms a seeded change in a scratch worktree of /repo HEAD: patch applies, demo PASS without / FAIL with,
# optionally the full test suite passes with the change. Stores it under /verif/seeded/<id>/.
set -u
SRC="$1"; ID="$2"; PROP="$3"; FULL="${4:-}"
WT=$(mktemp -d /tmp/verif-confirm-XXXXXX); rmdir "$WT"
git -C /repo worktree add --detach -f "$WT" HEAD >/dev/null 2>&1 || { echo "worktree failed"; exit 2; }
OUT=/verif/seeded/$ID; mkdir -p "$OUT"
cp "$SRC/patch.diff" "$OUT/patch.diff"; cp "$SRC/demo.py" "$OUT/demo.py"; [ -f "$SRC/notes.md" ] && cp "$SRC/notes.md" "$OUT/notes.md"
mkdir -p "$WT/MUT"; cp "$SRC/demo.py" "$WT/MUT/demo.py"
cd "$WT"
timeout 900 /venv/bin/python MUT/demo.py > "$OUT/demo_without.log" 2>&1; RC0=$?
if ! git apply --whitespace=nowarn "$OUT/patch.diff" 2>/dev/null; then
  git apply -3 --whitespace=nowarn "$OUT/patch.diff" >/dev/null 2>&1 || { echo "$ID: PATCH DOES NOT APPLY"; cd /; git -C /repo worktree remove --force "$WT"; exit 3; }
  git diff HEAD -- src scenarios > "$OUT/patch.diff"   # re-based on the current HEAD
fi
timeout 900 /venv/bin/python MUT/demo.py > "$OUT/demo_with.log" 2>&1; RC1=$?
TESTS="not run"
if [ -n "$FULL" ]; then
  timeout 3000 /venv/bin/python -m pytest -ra -q -p no:cacheprovider --timeout=900 --continue-on-collection-errors > "$OUT/tests_with.log" 2>&1
  TESTS=$(tail -1 "$OUT/tests_with.log")
fi
rm -f results/*.csv 2>/dev/null
cd /; git -C /repo worktree remove --force "$WT" >/dev/null 2>&1; rm -rf "$WT"; git -C /repo worktree prune
echo "$ID: demo without patch exit=$RC0, with patch exit=$RC1, tests: $TESTS"
cat > "$OUT/confirm.json" <<J
{"id": "$ID", "property": "$PROP", "demo_exit_without_patch": $RC0, "demo_exit_with_patch": $RC1, "full_tests_with_patch": "$TESTS", "repo_head": "$(git -C /repo rev-parse --short HEAD)"}
J
