"""C02 reference model of the solver node: an independently formulated LP, built in matrix
form from (consts, time_consts) only - never from PuLP objects - and solved with HiGHS.

Formulation: cumulative (prefix-sum) ledgers instead of stock variables, physical
feasibility as listed in property C01, the two documented intake caps, the round's charge
(equalities in human rounds; ceilings, monotone decrease and pins in the animal round) and
the documented objective. Two variants of the meat rule:
    meat="code"  the rule the code documents (monthly cap by the running slaughter total +
                 cap on the horizon total)
    meat="phys"  the physical ledger (cumulative eaten <= cumulative slaughtered)
"""

import numpy as np
import scipy.sparse as sp

from . import lpsolve


class _LP:
    def __init__(self):
        self.n = 0
        self.lb, self.ub = [], []
        self.ub_rows, self.eq_rows = [], []  # (dict col->coef, rhs)

    def var(self, count=1, lb=0.0, ub=None):
        start = self.n
        self.n += count
        self.lb += [lb] * count
        self.ub += [ub] * count
        return np.arange(start, start + count)

    def le(self, coefs, rhs):
        self.ub_rows.append((coefs, rhs))

    def eq(self, coefs, rhs):
        self.eq_rows.append((coefs, rhs))

    def ge(self, coefs, rhs):
        self.ub_rows.append(({k: -v for k, v in coefs.items()}, -rhs))

    def _mat(self, rows):
        if not rows:
            return None, np.zeros(0)
        r, c, v, b = [], [], [], []
        for i, (coefs, rhs) in enumerate(rows):
            for k, val in coefs.items():
                if val != 0.0:
                    r.append(i)
                    c.append(int(k))
                    v.append(float(val))
            b.append(float(rhs))
        return sp.csr_matrix((v, (r, c)), shape=(len(rows), self.n)), np.array(b)

    def solve(self, obj, maximize=True):
        A_ub, b_ub = self._mat(self.ub_rows)
        A_eq, b_eq = self._mat(self.eq_rows)
        c = np.zeros(self.n)
        for k, v in obj.items():
            c[int(k)] = v
        return lpsolve.solve_matrix(c, A_ub, b_ub, A_eq, b_eq, list(zip(self.lb, self.ub)), maximize=maximize)


def _add(d, k, v):
    d[int(k)] = d.get(int(k), 0.0) + v


def build_and_solve(rec, meat="code"):
    """rec: one round record of engine_p.Trace (consts, time_consts, type, min_human).
    Returns (status, optimum)."""
    co, tc = rec["consts"], rec["time_consts"]
    ci = co["inputs"]
    kind = rec["type"]
    N = co["NMONTHS"]
    need = co["BILLION_KCALS_NEEDED"]
    K = co["SEAWEED_KCALS"]
    store = bool(co["STORE_FOOD_BETWEEN_YEARS"])
    lp = _LP()
    human = [dict() for _ in range(N)]  # per month: coefficients of human consumption (billion kcals)
    human_const = np.zeros(N)
    feed = [dict() for _ in range(N)]
    bio = [dict() for _ in range(N)]
    any_feed_source = False
    pins = []  # (food name, var indices of the human variable, kcal ratio)

    def w(key):
        return co[key] / 100.0

    # ---------------------------------------------------------------- stored food
    if co["ADD_STORED_FOOD"]:
        S0 = float(np.sum(co["stored_food"].initial_available.kcals))
        sh, sf, sb = lp.var(N), lp.var(N), lp.var(N)
        g = 1.0 / (1 - w("STORED_FOOD_WASTE_RETAIL"))
        last = N if store else min(N, 13)
        for m in range(last):
            row = {}
            for k in range(m + 1):
                _add(row, sh[k], g)
                _add(row, sf[k], 1.0)
                _add(row, sb[k], 1.0)
            lp.le(row, S0)
        if not store:
            for m in range(13, N):
                for v in (sh, sf, sb):
                    lp.ub[v[m]] = 0.0
        for m in range(N):
            _add(human[m], sh[m], 1.0)
            _add(feed[m], sf[m], 1.0)
            _add(bio[m], sb[m], 1.0)
        any_feed_source = True
        pins.append(("stored_food", sh, 1.0))
    # ---------------------------------------------------------------- outdoor crops
    if co["ADD_OUTDOOR_GROWING"]:
        prod = np.array(tc["outdoor_crops"].production.kcals, float)
        cprod = np.cumsum(prod)
        ch, cf, cb = lp.var(N), lp.var(N), lp.var(N)
        g = 1.0 / (1 - w("CROP_WASTE_RETAIL"))
        for m in range(N):
            row = {}
            for k in range(m + 1):
                _add(row, ch[k], g)
                _add(row, cf[k], 1.0)
                _add(row, cb[k], 1.0)
            lp.le(row, cprod[m])
            _add(human[m], ch[m], 1.0)
            _add(feed[m], cf[m], 1.0)
            _add(bio[m], cb[m], 1.0)
        any_feed_source = True
        pins.append(("outdoor_crops", ch, 1.0))
    # ---------------------------------------------------------------- meat
    if co["ADD_MEAT"]:
        sl = np.array(tc["each_month_meat_slaughtered"].kcals, float)
        me = lp.var(N)
        g = 1.0 / (1 - w("MEAT_WASTE_RETAIL"))
        if not store:
            for m in range(N):
                lp.le({me[m]: g}, sl[m])
        elif meat == "code":
            running = np.array(tc["max_consumed_culled_kcals_each_month"], float)
            for m in range(N):
                lp.le({me[m]: g}, running[m])
            lp.le({me[m]: g for m in range(N)}, float(co["meat_summed_consumption"]))
        else:
            csl = np.cumsum(sl)
            for m in range(N):
                lp.le({me[k]: g for k in range(m + 1)}, csl[m])
        for m in range(N):
            _add(human[m], me[m], 1.0)
        pins.append(("meat", me, 1.0))
    # ---------------------------------------------------------------- SCP, cellulosic sugar
    res = {}
    for flag, name, wkey, tkey in [("ADD_METHANE_SCP", "methane_scp", "SCP_RETAIL_WASTE", "methane_scp"),
                                   ("ADD_CELLULOSIC_SUGAR", "cellulosic_sugar", "CELL_SUGAR_RETAIL_WASTE", "cellulosic_sugar")]:
        if co[flag]:
            prod = np.array(tc[tkey].kcals, float)
            h, f, b = lp.var(N), lp.var(N), lp.var(N)
            g = 1.0 / (1 - w(wkey))
            for m in range(N):
                lp.le({h[m]: g, f[m]: 1.0, b[m]: 1.0}, prod[m])
                _add(human[m], h[m], 1.0)
                _add(feed[m], f[m], 1.0)
                _add(bio[m], b[m], 1.0)
            any_feed_source = True
            res[name] = (h, f, b, 1.0)
            pins.append((name, h, 1.0))
    # ---------------------------------------------------------------- seaweed
    if co["ADD_SEAWEED"]:
        built = np.array(tc["built_area"], float)[:N]
        gr = np.array(tc["growth_rates_monthly"], float)[:N] / 100.0
        init, dmax, dmin = co["INITIAL_SEAWEED"], co["MAXIMUM_DENSITY"], co["MINIMUM_DENSITY"]
        a0 = co["INITIAL_BUILT_SEAWEED_AREA"]
        hl = co["HARVEST_LOSS"] / 100.0
        g = 1.0 / (1 - w("SEAWEED_WASTE_RETAIL"))
        wet, area = lp.var(N), lp.var(N)
        h, f, b = lp.var(N), lp.var(N), lp.var(N)
        for m in range(N):
            lp.lb[wet[m]] = init
            lp.ub[wet[m]] = dmax * built[m]
            lp.lb[area[m]] = a0
            lp.ub[area[m]] = built[m]
        lp.eq({wet[0]: 1.0}, init)
        lp.eq({area[0]: 1.0}, a0)
        for v in (h, f, b):
            lp.ub[v[0]] = 0.0
        for m in range(1, N):
            lp.eq({wet[m]: 1.0, wet[m - 1]: -(1 + gr[m]), h[m]: g, f[m]: 1.0, b[m]: 1.0,
                   area[m]: dmin * hl, area[m - 1]: -dmin * hl}, 0.0)
        for m in range(N):
            _add(human[m], h[m], K)
            _add(feed[m], f[m], K)
            _add(bio[m], b[m], K)
        any_feed_source = True
        res["seaweed"] = (h, f, b, K)
        pins.append(("seaweed", h, K))
    # ---------------------------------------------------------------- constants eaten by people
    human_const += np.array(tc["milk_kcals"], float)[:N]
    human_const += np.array(tc["greenhouse_crops"].kcals, float)[:N]
    human_const += np.array(tc["fish"].to_humans.kcals, float)[:N]

    feed_charge = np.array(tc["feed"].kcals, float)
    bio_charge = np.array(tc["biofuel"].kcals, float)
    # caps on the share of resilient foods in feed and biofuel (relative to this round's charge)
    for name, (h, f, b, ratio) in res.items():
        up = name.upper()
        for m in range(N):
            lp.le({f[m]: ratio}, ci["MAX_%s_AS_PERCENT_KCALS_FEED" % up] / 100.0 * feed_charge[m])
            lp.le({b[m]: ratio}, ci["MAX_%s_AS_PERCENT_KCALS_BIOFUEL" % up] / 100.0 * bio_charge[m])

    if kind == "to_humans":
        z = lp.var(1)[0]
        for m in range(N):
            # z <= consumed[m] = (sum human + const)/need*100
            row = {z: 1.0}
            for k, v in human[m].items():
                _add(row, k, -v / need * 100.0)
            lp.le(row, human_const[m] / need * 100.0)
        for name, (h, f, b, ratio) in res.items():
            frac = ci["MAX_%s_AS_PERCENT_KCALS_HUMANS" % name.upper()] / 100.0
            for m in range(N):
                lp.le({h[m]: ratio}, frac * need)  # relative to the initial population's need
                row = {}
                _add(row, h[m], ratio)
                for k, v in human[m].items():
                    _add(row, k, -frac * v)
                lp.le(row, frac * human_const[m])  # relative to actual intake
        if any_feed_source:
            for m in range(N):
                lp.eq(dict(feed[m]), feed_charge[m])
                lp.eq(dict(bio[m]), bio_charge[m])
        st, val, _x = lp.solve({z: 1.0}, maximize=True)
        return st, val
    # ---------------------------------------------------------------- animal round
    mh = rec["min_human"]
    pop = co["POP"]
    lo, hi = (0.9999, 1.0001) if pop < 1e7 else (0.99999, 1.00001)
    kd = co["KCALS_DAILY"]
    for name, hv, ratio in pins:
        mn = np.array(mh[name], float) / kd * need  # kcals per person per day -> billion kcals per month
        for m in range(N):
            lp.ge({hv[m]: ratio}, lo * mn[m])
            lp.le({hv[m]: ratio}, hi * mn[m])
    if any_feed_source:
        mf = np.array(tc["max_feed_that_could_be_used"].kcals, float)
        mb = np.array(tc["max_biofuel_that_could_be_used"].kcals, float)
        for m in range(N):
            lp.le(dict(feed[m]), mf[m])
            lp.le(dict(bio[m]), mb[m])
            if m > 0:
                row = dict(feed[m])
                for k, v in feed[m - 1].items():
                    _add(row, k, -v)
                lp.le(row, 0.0)
                row = dict(bio[m])
                for k, v in bio[m - 1].items():
                    _add(row, k, -v)
                lp.le(row, 0.0)
    obj = {}
    for m in range(N):
        for k, v in feed[m].items():
            _add(obj, k, 2.0 / 3.0 * v)
        for k, v in bio[m].items():
            _add(obj, k, 1.0 / 3.0 * v)
    if not obj:
        return "optimal", 0.0
    st, val, _x = lp.solve(obj, maximize=True)
    return st, val
