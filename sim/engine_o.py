"""Engine O: the option dictionary as a bag of messages to the Scenarios node.

Part 1 (this file, top): the REFERENCE written from /repo/scenarios/README.md and the
setter docstrings / description strings -- family -> value -> exact set of constants --
plus the registry of setters (which family, which scale they are valid for, call shape).
Part 2: helpers (flatten / overlay / compare), the seams (stubbed run_and_analyze_scenario,
guarded compute_parameters_first_round, wrapped create_animal_objects).
Part 3: op executors.   Part 4: plan (workload + fault enumeration).

Nothing here evaluates repo objects to obtain an expected value, with one declared
exception: the *initial* constants of a scale (init_country/global_food_system_properties)
are taken from a fresh, separate Scenarios object and used as the baseline on which the
reference overlays the 15 other families; for scale=country that baseline is itself
compared with the documented column -> constant mapping (ref_country_init).
"""

import copy
import math

from . import core, workload, world

FAMILIES = list(workload.FAMILIES)
OVERRIDE_KEYS = [
    "MINIMUM_PERCENT_FED_BEFORE_NONHUMAN_CONSUMPTION_ALLOWED", "RATIO_STOCKS_UNTOUCHED",
    "CROP_PRODUCTION_MULTIPLIER", "GRASSES_PRODUCTION_MULTIPLIER", "kg_meat_per_large_animal",
]
MINPCT = "MINIMUM_PERCENT_FED_BEFORE_NONHUMAN_CONSUMPTION_ALLOWED"

# order in which the reference overlays families (matters only for the two keys that two
# families document: STORE_FOOD_BETWEEN_YEARS belongs to the stock regime, stored_food
# merely initialises it; ADD_SEAWEED belongs to `scenario`, the country init only presets it)
REF_ORDER = [
    "stored_food", "ratio_stocks_untouched", "shutoff", "waste", "nutrition", "intake_constraints",
    "seasonality", "grasses", "fish", "crop_disruption", "protein", "fat", "cull", "scenario", "meat_strategy",
]

FLAG_OF_FAMILY = {
    "shutoff": "NONHUMAN_CONSUMPTION_SET", "waste": "WASTE_SET", "intake_constraints": "INTAKE_CONSTRAINTS_SET",
    "nutrition": "NUTRITION_PROFILE_SET", "stored_food": "STORED_FOOD_SET",
    "ratio_stocks_untouched": "STORED_FOOD_END_SIM_SET", "scale": "SCALE_SET", "seasonality": "SEASONALITY_SET",
    "grasses": "GRASSES_SET", "fish": "FISH_SET", "crop_disruption": "DISRUPTION_SET", "scenario": "SCENARIO_SET",
    "protein": "PROTEIN_SET", "fat": "FAT_SET", "cull": "CULLING_PARAM_SET", "meat_strategy": "MEAT_STRATEGY_SET",
}

# values scenarios/README.md documents but neither value table lists (filled by load_tables from the README
# of $VERIF_REPO; on the pinned tree: ratio_stocks_untouched=no_stored_food_between_years, DESIGN 5/C13 "Expected")
README_ONLY_VALUES = {}
README_VALUES = {}
UNDOCUMENTED_VALUES = []  # accepted by the dispatcher, absent from the README (reported in probes only)
# README lists them as allowed; the code prints "not working in this version" and exits
README_DISABLED_VALUES = {"fat": ["required"], "protein": ["required"]}

C, G = "country", "global"
BOTH = (C, G)


def _s(name, family, value, scales=BOTH, sig="c", needs_store=False, dispatch=True):
    return {"name": name, "family": family, "value": value, "scales": tuple(scales), "sig": sig,
            "needs_store": needs_store, "dispatch": dispatch}


SETTERS = [
    _s("set_immediate_shutoff", "shutoff", "immediate"),
    _s("set_one_month_delayed_shutoff", "shutoff", "one_month_delayed_shutoff"),
    _s("set_short_delayed_shutoff", "shutoff", "short_delayed_shutoff"),
    _s("set_long_delayed_shutoff", "shutoff", "long_delayed_shutoff"),
    _s("set_continued_feed_biofuels", "shutoff", "continued", needs_store=True),
    _s("set_continued_after_10_percent_fed", "shutoff", "continued_after_10_percent_fed", needs_store=True),
    _s("set_long_delayed_shutoff_after_10_percent_fed", "shutoff", "long_delayed_shutoff_after_10_percent_fed",
       needs_store=True),
    _s("set_breeding_to_greatly_reduced", "meat_strategy", "reduce_breeding"),
    _s("set_to_baseline_breeding", "meat_strategy", "baseline_breeding"),
    _s("set_to_feed_only_ruminants", "meat_strategy", "feed_only_ruminants"),
    _s("set_waste_to_zero", "waste", "zero"),
    _s("set_global_waste_to_tripled_prices", "waste", "tripled_prices_globally", (G,)),
    _s("set_global_waste_to_doubled_prices", "waste", "doubled_prices_globally", (G,)),
    _s("set_global_waste_to_baseline_prices", "waste", "baseline_globally", (G,)),
    _s("set_country_waste_to_tripled_prices", "waste", "tripled_prices_in_country", (C,), "cd"),
    _s("set_country_waste_to_doubled_prices", "waste", "doubled_prices_in_country", (C,), "cd"),
    _s("set_country_waste_to_baseline_prices", "waste", "baseline_in_country", (C,), "cd"),
    _s("set_baseline_nutrition_profile", "nutrition", "baseline"),
    _s("set_catastrophe_nutrition_profile", "nutrition", "catastrophe"),
    _s("set_intake_constraints_to_enabled", "intake_constraints", "enabled"),
    _s("set_intake_constraints_to_disabled_for_humans", "intake_constraints", "disabled_for_humans"),
    _s("set_no_stored_food", "stored_food", "zero"),
    _s("set_baseline_stored_food", "stored_food", "baseline"),
    _s("set_stored_food_buffer_zero", "ratio_stocks_untouched", "zero"),
    _s("set_no_stored_food_between_years", "ratio_stocks_untouched", "no_stored_between_years"),
    _s("set_stored_food_buffer_as_baseline", "ratio_stocks_untouched", "baseline"),
    _s("set_stored_food_buffer_as_baseline_and_no_stored_between_years", "ratio_stocks_untouched",
       "baseline_no_stored_between_years"),
    _s("set_no_seasonality", "seasonality", "no_seasonality"),
    _s("set_global_seasonality_baseline", "seasonality", "baseline_globally", (G,)),
    _s("set_global_seasonality_nuclear_winter", "seasonality", "nuclear_winter_globally", (G,)),
    _s("set_country_seasonality", "seasonality", "country", (C,), "cd"),
    _s("set_grasses_baseline", "grasses", "baseline"),
    _s("set_global_grasses_nuclear_winter", "grasses", "global_nuclear_winter", (G,)),
    _s("set_country_grasses_nuclear_winter", "grasses", "country_nuclear_winter", (C,), "cd"),
    _s("set_country_grasses_to_zero", "grasses", "all_crops_die_instantly", (C,)),
    _s("set_fish_zero", "fish", "zero", BOTH, "ct"),
    _s("set_fish_nuclear_winter_reduction", "fish", "nuclear_winter", BOTH, "t"),
    _s("set_fish_baseline", "fish", "baseline", BOTH, "ct"),
    _s("set_disruption_to_crops_to_zero", "crop_disruption", "zero"),
    _s("set_nuclear_winter_global_disruption_to_crops", "crop_disruption", "global_nuclear_winter", (G,)),
    _s("set_nuclear_winter_country_disruption_to_crops", "crop_disruption", "country_nuclear_winter", (C,), "cd"),
    _s("set_zero_crops", "crop_disruption", "all_crops_die_instantly"),
    _s("include_protein", "protein", "required", dispatch=False),
    _s("dont_include_protein", "protein", "not_required"),
    _s("include_fat", "fat", "required", dispatch=False),
    _s("dont_include_fat", "fat", "not_required"),
    _s("get_all_resilient_foods_scenario", "scenario", "all_resilient_foods"),
    _s("get_all_resilient_foods_and_more_area_scenario", "scenario", "all_resilient_foods_and_more_area"),
    _s("get_seaweed_scenario", "scenario", "seaweed"),
    _s("get_methane_scp_scenario", "scenario", "methane_scp"),
    _s("get_cellulosic_sugar_scenario", "scenario", "cellulosic_sugar"),
    _s("get_industrial_foods_scenario", "scenario", "industrial_foods"),
    _s("get_relocated_crops_scenario", "scenario", "relocated_crops"),
    _s("get_greenhouse_scenario", "scenario", "greenhouse"),
    _s("get_no_resilient_food_scenario", "scenario", "no_resilient_foods"),
    _s("cull_animals", "cull", "do_eat_culled"),
    _s("dont_cull_animals", "cull", "dont_eat_culled"),
]
SETTER = {s["name"]: s for s in SETTERS}
# building blocks of the `scenario` family: public methods without an exactly-once flag
SCENARIO_HELPERS = ["no_resilient_foods", "seaweed", "greenhouse", "relocated_outdoor_crops",
                    "expanded_area_and_relocated_outdoor_crops", "methane_scp", "cellulosic_sugar"]
INITS = ["init_generic_scenario", "init_global_food_system_properties", "init_country_food_system_properties"]


def setters_of(family, scale=None):
    return [s for s in SETTERS if s["family"] == family and (scale is None or scale in s["scales"])]


def setter_for_value(family, value):
    for s in SETTERS:
        if s["family"] == family and s["value"] == value:
            return s
    return None


def values_table(scale):
    return workload.GLOBAL_VALUES if scale == G else workload.COUNTRY_VALUES


# =========================================================================== REFERENCE
MONTHS = ["JAN", "FEB", "MAR", "APR", "MAY", "JUN", "JUL", "AUG", "SEP", "OCT", "NOV", "DEC"]

_GLOBAL_DISTRIBUTION = {"SUGAR": 0.09, "CROPS": 4.96, "MEAT": 0.80, "MILK": 2.12, "SEAFOOD": 0.17, "SEAWEED": 0.17}
_GLOBAL_SEASONALITY = [0.1121, 0.0178, 0.0241, 0.0344, 0.0338, 0.0411, 0.0882, 0.0791, 0.1042, 0.1911, 0.1377, 0.1365]
_NW_SEASONALITY = [0.1564, 0.0461, 0.0650, 0.1017, 0.0772, 0.0785, 0.0667, 0.0256, 0.0163, 0.1254, 0.1183, 0.1228]
_GLOBAL_GRASS = [0.72, 0.24, 0.16, 0.13, 0.125, 0.15, 0.17, 0.23, 0.32, 0.41]
_GLOBAL_CROP_LOSS = [0.53, 0.82, 0.89, 0.88, 0.84, 0.76, 0.65, 0.5, 0.33, 0.17, 0.08]
_FISH_YEARLY = [0, -11, -32, -35, -34, -32.5, -32, -30, -29, -27, -22, -15, -8, 0, 0, 0]


def ref_fish_nuclear_winter():
    """Yearly reductions (percent) read off Xia et al. fig. 2b, linearly interpolated to months,
    last year's value held for 12 more months; as a positive percentage of baseline."""
    out = []
    for i in range(len(_FISH_YEARLY) - 1):
        a, b = _FISH_YEARLY[i], _FISH_YEARLY[i + 1]
        for k in range(12):
            out.append(100.0 + a + (b - a) * k / 12.0)
    out += [100.0 + _FISH_YEARLY[-1]] * 12
    return out


def _country_distribution(row):
    d = {
        "SUGAR": row["distribution_loss_sugar"] * 100, "CROPS": row["distribution_loss_crops"] * 100,
        "MEAT": row["distribution_loss_meat"] * 100, "MILK": row["distribution_loss_dairy"] * 100,
        "SEAFOOD": row["distribution_loss_seafood"] * 100,
    }
    d["SEAWEED"] = d["SEAFOOD"]
    return d


def _sc(**k):
    return [((a,), b) for a, b in k.items()]


def _scenario_blocks(base):
    off = {"OG_USE_BETTER_ROTATION": False, "ADD_CELLULOSIC_SUGAR": False, "ADD_GREENHOUSES": False,
           "ADD_METHANE_SCP": False, "ADD_SEAWEED": False}
    relocated = [(("OG_USE_BETTER_ROTATION",), True), (("ROTATION_IMPROVEMENTS", "FAT_RATIO"), 1.647),
                 (("ROTATION_IMPROVEMENTS", "PROTEIN_RATIO"), 1.108), (("RATIO_INCREASED_CROP_AREA",), 1)]
    more_area = relocated[:3] + [(("RATIO_INCREASED_CROP_AREA",), 72 / 39),
                                 (("NUMBER_YEARS_TAKES_TO_REACH_INCREASED_AREA",), 3)]
    scp = [(("DELAY", "INDUSTRIAL_FOODS_MONTHS"), 2), (("INDUSTRIAL_FOODS_SLOPE_MULTIPLIER",), 1),
           (("ADD_METHANE_SCP",), True)]
    cs = [(("DELAY", "INDUSTRIAL_FOODS_MONTHS"), 2), (("INDUSTRIAL_FOODS_SLOPE_MULTIPLIER",), 1),
          (("ADD_CELLULOSIC_SUGAR",), True)]
    gh = [(("GREENHOUSE_GAIN_PCT",), 44), (("DELAY", "GREENHOUSE_MONTHS"), 2),
          (("GREENHOUSE_AREA_MULTIPLIER",), 0.19e9 / base["INITIAL_GLOBAL_CROP_AREA"]), (("ADD_GREENHOUSES",), True)]
    sw = [(("ADD_SEAWEED",), True), (("DELAY", "SEAWEED_MONTHS"), 1)]

    def offs(*names):
        return [((n,), off[n]) for n in names]

    return {
        "no_resilient_foods": _sc(INDUSTRIAL_FOODS_SLOPE_MULTIPLIER=0, RATIO_INCREASED_CROP_AREA=1) + offs(*off),
        "seaweed": _sc(INDUSTRIAL_FOODS_SLOPE_MULTIPLIER=0, RATIO_INCREASED_CROP_AREA=1)
        + offs("OG_USE_BETTER_ROTATION", "ADD_CELLULOSIC_SUGAR", "ADD_GREENHOUSES", "ADD_METHANE_SCP") + sw,
        "methane_scp": _sc(RATIO_INCREASED_CROP_AREA=1)
        + offs("OG_USE_BETTER_ROTATION", "ADD_CELLULOSIC_SUGAR", "ADD_GREENHOUSES", "ADD_SEAWEED") + scp,
        "cellulosic_sugar": _sc(RATIO_INCREASED_CROP_AREA=1)
        + offs("OG_USE_BETTER_ROTATION", "ADD_METHANE_SCP", "ADD_GREENHOUSES", "ADD_SEAWEED") + cs,
        "industrial_foods": _sc(RATIO_INCREASED_CROP_AREA=1)
        + offs("OG_USE_BETTER_ROTATION", "ADD_GREENHOUSES", "ADD_SEAWEED") + scp + cs,
        "relocated_crops": _sc(INDUSTRIAL_FOODS_SLOPE_MULTIPLIER=0)
        + offs("ADD_CELLULOSIC_SUGAR", "ADD_GREENHOUSES", "ADD_METHANE_SCP", "ADD_SEAWEED") + relocated,
        "greenhouse": _sc(INDUSTRIAL_FOODS_SLOPE_MULTIPLIER=0, RATIO_INCREASED_CROP_AREA=1)
        + offs("OG_USE_BETTER_ROTATION", "ADD_CELLULOSIC_SUGAR", "ADD_METHANE_SCP", "ADD_SEAWEED") + gh,
        "all_resilient_foods": relocated + scp + cs + gh + sw,
        "all_resilient_foods_and_more_area": more_area + scp + cs + gh + sw,
    }


def ref_family(family, value, row, nmonths, base):
    """-> (entries for constants_for_params [(path tuple, value)], entries for time consts {key: list})
    or None when (family, value) is not in the reference. `base` = constants before the setter
    (only INITIAL_GLOBAL_CROP_AREA is read from it, as the greenhouse docstring says)."""
    t = {}
    e = None
    if family == "shutoff":
        tab = {
            "immediate": (0, 0, 100), "one_month_delayed_shutoff": (1, 1, 100), "short_delayed_shutoff": (2, 1, 100),
            "long_delayed_shutoff": (3, 2, 100), "continued": (nmonths, nmonths, 100),
            "continued_after_10_percent_fed": (nmonths, nmonths, 10),
            # no README entry; setter body is the only documentation ("delayed shutoff ... after 10% fed")
            "long_delayed_shutoff_after_10_percent_fed": (12, 6, 10),
        }
        if value in tab:
            f, b, p = tab[value]
            e = [(("DELAY", "FEED_SHUTOFF_MONTHS"), f), (("DELAY", "BIOFUEL_SHUTOFF_MONTHS"), b), ((MINPCT,), p)]
    elif family == "meat_strategy":
        tab = {"reduce_breeding": "reduced", "baseline_breeding": "baseline", "feed_only_ruminants": "feed_only_ruminants"}
        if value in tab:
            e = [(("BREEDING_STRATEGY",), tab[value])]
    elif family == "waste":
        if value == "zero":
            e = [(("WASTE_DISTRIBUTION",), {k: 0 for k in _GLOBAL_DISTRIBUTION}), (("WASTE_RETAIL",), 0)]
        elif value in ("tripled_prices_globally", "doubled_prices_globally", "baseline_globally"):
            r = {"tripled_prices_globally": 6.08, "doubled_prices_globally": 10.6, "baseline_globally": 24.98}[value]
            e = [(("WASTE_DISTRIBUTION",), dict(_GLOBAL_DISTRIBUTION)), (("WASTE_RETAIL",), r)]
        elif value in ("tripled_prices_in_country", "doubled_prices_in_country", "baseline_in_country") and row is not None:
            col = {"tripled_prices_in_country": "retail_waste_price_triple",
                   "doubled_prices_in_country": "retail_waste_price_double",
                   "baseline_in_country": "retail_waste_baseline"}[value]
            e = [(("WASTE_DISTRIBUTION",), _country_distribution(row)), (("WASTE_RETAIL",), row[col] * 100)]
    elif family == "nutrition":
        tab = {"baseline": (2100, 61.7, 59.5), "catastrophe": (2100, 47, 51)}
        if value in tab:
            k, f, p = tab[value]
            e = [(("NUTRITION",), {"KCALS_DAILY": k, "FAT_DAILY": f, "PROTEIN_DAILY": p})]
    elif family == "intake_constraints":
        tab = {"enabled": (10, 40, 50), "disabled_for_humans": (100, 100, 100)}
        if value in tab:
            h = tab[value]
            e = []
            for who, (sw, cs, scp) in (("HUMANS", h), ("FEED", (10, 10, 43)), ("BIOFUEL", (10, 100, 100))):
                e += [(("MAX_SEAWEED_AS_PERCENT_KCALS_" + who,), sw),
                      (("MAX_CELLULOSIC_SUGAR_AS_PERCENT_KCALS_" + who,), cs),
                      (("MAX_METHANE_SCP_AS_PERCENT_KCALS_" + who,), scp)]
    elif family == "stored_food":
        tab = {"zero": (0, False), "baseline": (100, True)}
        if value in tab:
            p, a = tab[value]
            e = [(("STORE_FOOD_BETWEEN_YEARS",), True), (("PERCENT_STORED_FOOD_TO_USE",), p), (("ADD_STORED_FOOD",), a)]
    elif family == "ratio_stocks_untouched":
        tab = {"zero": (True, 0), "no_stored_between_years": (False, 0), "no_stored_food_between_years": (False, 0),
               "baseline": (True, 1), "baseline_no_stored_between_years": (False, 1)}
        if value in tab:
            s, r = tab[value]
            e = [(("STORE_FOOD_BETWEEN_YEARS",), s), (("RATIO_STOCKS_UNTOUCHED",), r)]
    elif family == "seasonality":
        if value == "no_seasonality":
            e = [(("SEASONALITY",), [1 / 12] * 12)]
        elif value == "baseline_globally":
            e = [(("SEASONALITY",), list(_GLOBAL_SEASONALITY))]
        elif value == "nuclear_winter_globally":
            e = [(("SEASONALITY",), list(_NW_SEASONALITY))]
        elif value == "country" and row is not None:
            e = [(("SEASONALITY",), [row["seasonality_m%d" % i] for i in range(1, 13)])]
    elif family == "grasses":
        v = None
        if value == "baseline":
            v = [1] * 10
        elif value == "global_nuclear_winter":
            v = list(_GLOBAL_GRASS)
        elif value == "country_nuclear_winter" and row is not None:
            v = [1 + row["grasses_reduction_year%d" % i] for i in range(1, 11)]
        elif value == "all_crops_die_instantly":
            v = [0] * 10
        if v is not None:
            e = [(("RATIO_GRASSES_YEAR%d" % (i + 1),), x) for i, x in enumerate(v)]
    elif family == "fish":
        if value == "zero":
            e, t = [], {"FISH_PERCENT_MONTHLY": [0] * nmonths}
        elif value == "baseline":
            e, t = [], {"FISH_PERCENT_MONTHLY": [100] * nmonths}
        elif value == "nuclear_winter":
            e, t = [], {"FISH_PERCENT_MONTHLY": ref_fish_nuclear_winter()}
    elif family == "crop_disruption":
        if value == "zero":
            e = [(("ADD_OUTDOOR_GROWING",), True)] + [(("RATIO_CROPS_YEAR%d" % i,), 1) for i in range(1, 11)]
        elif value == "global_nuclear_winter":
            e = [(("ADD_OUTDOOR_GROWING",), True)]
            e += [(("RATIO_CROPS_YEAR%d" % (i + 1),), 1 - x) for i, x in enumerate(_GLOBAL_CROP_LOSS)]
        elif value == "country_nuclear_winter" and row is not None:
            e = [(("ADD_OUTDOOR_GROWING",), True)]
            e += [(("RATIO_CROPS_YEAR%d" % i,), 1 + row["crop_reduction_year%d" % i]) for i in range(1, 11)]
            e += [(("RATIO_CROPS_YEAR11",), 1 + row["crop_reduction_year10"])]
        elif value == "all_crops_die_instantly":
            e = [(("ADD_OUTDOOR_GROWING",), False), (("RATIO_OF_CROP_YIELDS_FROM_VERY_BEGINNING",), 0)]
            e += [(("RATIO_CROPS_YEAR%d" % i,), 0) for i in range(1, 12)]
    elif family == "protein":
        tab = {"required": True, "not_required": False}
        if value in tab:
            e = [(("INCLUDE_PROTEIN",), tab[value])]
    elif family == "fat":
        tab = {"required": True, "not_required": False}
        if value in tab:
            e = [(("INCLUDE_FAT",), tab[value])]
    elif family == "cull":
        tab = {"do_eat_culled": True, "dont_eat_culled": False}
        if value in tab:
            e = [(("ADD_MEAT",), tab[value]), (("ADD_MILK",), tab[value])]
    elif family == "scenario":
        e = _scenario_blocks(base).get(value)
    if e is None:
        return None
    return e, t


def ref_country_init(row):
    """Documented column -> constant mapping of scale=country (comments of
    init_generic_scenario / init_country_food_system_properties)."""
    c = {
        "GLOBAL_POP": 7.723713182e9, "INITIAL_GLOBAL_CROP_AREA": 1.43e9, "INITIAL_HARVEST_DURATION_IN_MONTHS": 8,
        "DELAY": {"ROTATION_CHANGE_IN_MONTHS": 2}, "ADD_FISH": True,
        "POP": row["population"], "BASELINE_CROP_KCALS": row["crop_kcals"], "BASELINE_CROP_FAT": row["crop_fat"],
        "BASELINE_CROP_PROTEIN": row["crop_protein"], "BIOFUEL_KCALS": row["biofuel_kcals"],
        "BIOFUEL_FAT": row["biofuel_fat"], "BIOFUEL_PROTEIN": row["biofuel_protein"], "FEED_KCALS": row["feed_kcals"],
        "FEED_FAT": row["feed_fat"], "FEED_PROTEIN": row["feed_protein"],
        "HUMAN_INEDIBLE_FEED_BASELINE_MONTHLY": row["grasses_baseline"] / 12,
        "INITIAL_MILK_CATTLE": row["dairy_cows"], "INIT_SMALL_ANIMALS": row["small_animals"],
        "INIT_MEDIUM_ANIMALS": row["medium_animals"], "INIT_LARGE_ANIMALS_WITH_MILK_COWS": row["large_animals"],
        "SCP_GLOBAL_PRODUCTION_FRACTION": row["percent_of_global_capex"],
        "CS_GLOBAL_PRODUCTION_FRACTION": row["percent_of_global_production"],
        "SEAWEED_GROWTH_PER_DAY": {k.replace("seaweed_growth_per_day_", ""): row[k] for k in row.index
                                   if "seaweed_growth_per_day_" in k},
        "INITIAL_SEAWEED_FRACTION": row["initial_seaweed_fraction"],
        "SEAWEED_NEW_AREA_FRACTION": row["new_area_fraction"], "SEAWEED_MAX_AREA_FRACTION": row["max_area_fraction"],
        "POWER_LAW_IMPROVEMENT": row["power_law_improvement"],
        "INITIAL_BUILT_SEAWEED_FRACTION": row["initial_built_fraction"],
        "INITIAL_CROP_AREA_FRACTION": row["fraction_crop_area"], "INITIAL_CROP_AREA_HA": row["crop_area_1000ha"] * 1000,
        "FISH_DRY_CALORIC_ANNUAL": row["aq_kcals"], "FISH_FAT_TONS_ANNUAL": row["aq_fat"],
        "FISH_PROTEIN_TONS_ANNUAL": row["aq_protein"], "TONS_MILK_ANNUAL": row["dairy"],
        "TONS_CHICKEN_AND_PORK_ANNUAL": row["chicken"] + row["pork"], "TONS_BEEF_ANNUAL": row["beef"],
        "ROTATION_IMPROVEMENTS": {"POWER_LAW_IMPROVEMENT": row["power_law_improvement"]},
        "END_OF_MONTH_STOCKS": {m: row["stocks_kcals_" + m.lower()] for m in MONTHS},
        "MILK_YIELD_KG_PER_MILK_BEARING_ANIMAL_PER_YEAR": row["milk_yield_kg_per_milk_bearing_animal_per_year"],
        "KG_MEAT_PER_PIG": row["kg_meat_per_pig"], "KG_MEAT_PER_CHICKEN": row["kg_meat_per_chicken"],
    }
    if row["initial_seaweed_fraction"] == 0:
        c["ADD_SEAWEED"] = False
    return c


REF_GLOBAL_INIT_PINS = {
    "POP": 7723713182, "COUNTRY_CODE": "WOR", "GLOBAL_POP": 7.723713182e9, "INITIAL_GLOBAL_CROP_AREA": 1.43e9,
    "INITIAL_CROP_AREA_FRACTION": 1, "SCP_GLOBAL_PRODUCTION_FRACTION": 1, "CS_GLOBAL_PRODUCTION_FRACTION": 1,
    "ADD_FISH": True, "DELAY.ROTATION_CHANGE_IN_MONTHS": 2,
}

KNOWN_TO_FAIL = [  # alter_scenario_if_known_to_fail (documented patch, prints a WARNING): shutoff -> immediate
    {"iso3": "SLV", "cull": ["do_eat_culled"], "scenario": ["all_resilient_foods", "seaweed"],
     "shutoff": ["continued", "long_delayed_shutoff", "short_delayed_shutoff"]},
    {"iso3": "ALB", "cull": ["do_eat_culled"], "scenario": ["all_resilient_foods", "seaweed"],
     "shutoff": ["continued", "long_delayed_shutoff", "short_delayed_shutoff"]},
    {"iso3": "ECU", "scenario": ["all_resilient_foods", "seaweed", "greenhouse", "methane_scp", "relocated_crops",
                                 "industrial_foods", "cellulosic_sugar"],
     "crop_disruption": ["zero", "baseline"], "meat_strategy": ["feed_only_ruminants"],
     "ratio_stocks_untouched": ["zero", "baseline"], "cull": ["do_eat_culled"], "shutoff": ["long_delayed_shutoff"]},
]


def ref_known_to_fail(opts, iso3):
    """-> (effective options, rewritten?)"""
    for rule in KNOWN_TO_FAIL:
        if rule["iso3"] != iso3:
            continue
        if all(_hashable_in(opts.get(k), v) for k, v in rule.items() if k != "iso3"):
            o = dict(opts)
            o["shutoff"] = "immediate"
            return o, True
    return dict(opts), False


def _hashable_in(x, seq):
    try:
        return x in seq
    except TypeError:
        return False


def ref_overrides(opts, nested):
    """Numeric overrides, applied on top of the families (each names exactly one input)."""
    for k, v in opts.items():
        if "_head" in k:
            nested[k + "_start"] = int(v)
    if "kg_meat_per_large_animal" in opts:
        nested["kg_meat_per_large_animal"] = float(opts["kg_meat_per_large_animal"])
    if MINPCT in opts:
        nested[MINPCT] = float(opts[MINPCT])
    if "RATIO_STOCKS_UNTOUCHED" in opts:
        nested["RATIO_STOCKS_UNTOUCHED"] = float(opts["RATIO_STOCKS_UNTOUCHED"])
    for key, pref in (("CROP_PRODUCTION_MULTIPLIER", "RATIO_CROPS_YEAR"), ("GRASSES_PRODUCTION_MULTIPLIER", "RATIO_GRASSES_YEAR")):
        if key in opts:
            mlt = float(opts[key])
            for i in range(1, 12):
                if pref + str(i) in nested:
                    nested[pref + str(i)] = nested[pref + str(i)] * mlt
    return nested


def ref_constants(opts, row, init_nested):
    """Full expected (constants_for_params, time_consts) for an accepted option dictionary.
    init_nested = initial constants of the scale (fresh Scenarios object)."""
    iso3 = "WOR" if row is None else row["iso3"]
    eff, rewritten = ref_known_to_fail(opts, iso3)
    nested = copy.deepcopy(init_nested)
    nested["COUNTRY_CODE"] = iso3
    nested["NMONTHS"] = eff["NMONTHS"]
    tc = {}
    for fam in REF_ORDER:
        r = ref_family(fam, eff[fam], row, eff["NMONTHS"], nested)
        if r is None:
            raise KeyError("no reference for %s=%r" % (fam, eff[fam]))
        overlay(nested, r[0])
        tc.update(r[1])
    ref_overrides(eff, nested)
    return nested, tc, rewritten


def footprint(family):
    """Top-level names any value of the family may write (for attributing a mismatch)."""
    fp = {
        "shutoff": ["DELAY.FEED_SHUTOFF_MONTHS", "DELAY.BIOFUEL_SHUTOFF_MONTHS", MINPCT],
        "meat_strategy": ["BREEDING_STRATEGY"], "waste": ["WASTE_DISTRIBUTION", "WASTE_RETAIL"],
        "nutrition": ["NUTRITION"], "intake_constraints": ["MAX_"],
        "stored_food": ["PERCENT_STORED_FOOD_TO_USE", "ADD_STORED_FOOD"],
        "ratio_stocks_untouched": ["STORE_FOOD_BETWEEN_YEARS", "RATIO_STOCKS_UNTOUCHED"],
        "seasonality": ["SEASONALITY"], "grasses": ["RATIO_GRASSES_YEAR"], "fish": ["FISH_PERCENT_MONTHLY"],
        "crop_disruption": ["ADD_OUTDOOR_GROWING", "RATIO_CROPS_YEAR", "RATIO_OF_CROP_YIELDS_FROM_VERY_BEGINNING"],
        "protein": ["INCLUDE_PROTEIN"], "fat": ["INCLUDE_FAT"], "cull": ["ADD_MEAT", "ADD_MILK"],
        "scenario": ["INDUSTRIAL_FOODS_SLOPE_MULTIPLIER", "RATIO_INCREASED_CROP_AREA", "OG_USE_BETTER_ROTATION",
                     "ADD_CELLULOSIC_SUGAR", "ADD_GREENHOUSES", "ADD_METHANE_SCP", "ADD_SEAWEED", "DELAY.SEAWEED_MONTHS",
                     "DELAY.GREENHOUSE_MONTHS", "DELAY.INDUSTRIAL_FOODS_MONTHS", "GREENHOUSE_", "ROTATION_IMPROVEMENTS.FAT_RATIO",
                     "ROTATION_IMPROVEMENTS.PROTEIN_RATIO", "NUMBER_YEARS_TAKES_TO_REACH_INCREASED_AREA"],
    }
    return fp.get(family, [])


def owner_of(key):
    for fam in REF_ORDER:
        for p in footprint(fam):
            if key.startswith(p):
                return fam
    if key.endswith("_head_start"):
        return "override:" + key[: -len("_start")]
    if key in ("kg_meat_per_large_animal",):
        return "override:" + key
    if key in ("NMONTHS", "COUNTRY_CODE"):
        return key
    return "scale"


# =========================================================================== helpers
def overlay(nested, entries):
    for path, v in entries:
        d = nested
        for p in path[:-1]:
            d = d.setdefault(p, {})
        d[path[-1]] = copy.deepcopy(v)
    return nested


def flatten(o, prefix="", out=None):
    import numpy as np

    if out is None:
        out = {}
    if isinstance(o, dict):
        if not o and prefix:
            out[prefix] = "{}"
        for k in o:
            flatten(o[k], (prefix + "." if prefix else "") + str(k), out)
    elif isinstance(o, (list, tuple)):
        if not o:
            out[prefix] = "[]"
        for i, x in enumerate(o):
            flatten(x, "%s[%d]" % (prefix, i), out)
    elif isinstance(o, np.ndarray):
        flatten(o.tolist(), prefix, out)
    elif isinstance(o, np.generic):
        out[prefix] = o.item()
    else:
        out[prefix] = o
    return out


def leaf_eq(a, b, rel=1e-12):
    if isinstance(a, str) or isinstance(b, str):
        return isinstance(a, str) and isinstance(b, str) and a == b
    if a is None or b is None:
        return a is b
    try:
        fa, fb = float(a), float(b)
    except (TypeError, ValueError):
        return a == b
    if math.isnan(fa) or math.isnan(fb):
        return math.isnan(fa) and math.isnan(fb)
    if fa == fb:
        return True
    return abs(fa - fb) <= rel * max(abs(fa), abs(fb))


MISSING = "<absent>"


def compare_flat(real, exp):
    """-> [(key, real, expected)] over the union of keys."""
    out = []
    for k in sorted(set(real) | set(exp)):
        a, b = real.get(k, MISSING), exp.get(k, MISSING)
        if a is MISSING or b is MISSING or not leaf_eq(a, b):
            out.append((k, a, b))
    return out


def flags_of(loader):
    return {k: v for k, v in sorted(vars(loader).items()) if k.endswith("_SET")}


def scale_of(iso3):
    return G if iso3 == "WOR" else C


# =========================================================================== seams + context
ROWS = {}
CODES = []
SPECIES = []
FLAG_UNGUARDED_HELPERS = False  # scenario building blocks (seaweed(), greenhouse(), ...) carry no flag: counted only

V_VALUE, V_INVALID, V_MISSING, V_DUP, V_DICT, V_OVR = (
    "value_sets_documented_constants", "invalid_rejected", "missing_rejected", "duplicate_rejected",
    "caller_dict_unmodified", "override_changes_exactly_its_target",
)


def load_tables():
    """Parent, once. Country rows come from DataFrame.iterrows() (Python floats, DESIGN 9-i)."""
    import os

    import pandas as pd

    if ROWS:
        return
    df = pd.read_csv(os.path.join(core.REPO_DIR, "data", "no_food_trade", "computer_readable_combined.csv"))
    for _i, r in df.iterrows():
        ROWS[r["iso3"]] = r
    CODES.extend(list(ROWS))
    with open(os.path.join(core.REPO_DIR, "data", "no_food_trade", "animal_feed_data", "FAOSTAT_head_and_slaughter.csv")) as f:
        header = f.readline().strip().split(",")
    SPECIES.extend([c[: -len("_head")] for c in header if c.endswith("_head")])
    README_VALUES.update(parse_readme(os.path.join(core.REPO_DIR, "scenarios", "README.md")))
    for fam in FAMILIES:
        known = set(workload.COUNTRY_VALUES[fam]) | set(workload.GLOBAL_VALUES[fam])
        extra = [v for v in README_VALUES.get(fam, []) if v not in known and v not in README_DISABLED_VALUES.get(fam, [])]
        if extra:
            README_ONLY_VALUES[fam] = extra
        UNDOCUMENTED_VALUES.extend("%s=%s" % (fam, v) for v in sorted(known) if v not in README_VALUES.get(fam, []))
    import importlib

    with world.quiet():
        world.mods().yaml_runner = importlib.import_module("src.scenarios.run_scenarios_from_yaml")


def parse_readme(path):
    """'Allowed Values' section of scenarios/README.md -> {family: [documented values]}."""
    import re

    out, fam, on = {}, None, False
    with open(path) as f:
        for line in f:
            if line.startswith("## "):
                on = line.strip() == "## Allowed Values"
                continue
            if not on:
                continue
            m1 = re.match(r"^\s*- \*\*(\w+)\*\*\s*:", line)
            if m1:
                fam = m1.group(1)
                continue
            m2 = re.match(r"^\s*- `([^`]+)`", line)
            if m2 and fam in FAMILIES:
                out.setdefault(fam, []).append(m2.group(1))
    return out


class _Stop(BaseException):
    """Raised by the wrapped create_animal_objects right after capturing its input."""


class Ctx:
    def __init__(self, log):
        from . import monitors

        self.m = world.mods()
        self.V = monitors.Verdicts("C13")
        self.log = log
        self.calls = []
        self.compute_reached = 0
        self.faults, self.probes, self.nontrivial = {}, {}, []
        self.aborts = 0
        self.seen_row = None
        self.fail_runs = []
        self._init_cache, self._base_rows = {}, {}
        self.sample = []

    def probe(self, name, n=1):
        self.probes[name] = self.probes.get(name, 0) + n

    def fault(self, name):
        self.faults[name] = self.faults.get(name, 0) + 1

    def install(self):
        import types

        m, ctx = self.m, self
        self._saved = (m.rs.ScenarioRunner.run_and_analyze_scenario, m.par.Parameters.compute_parameters_first_round,
                       m.ap.AnimalModelBuilder.create_animal_objects)

        def stub_run(self_, *a, **k):
            ctx.calls.append((a, k))
            if ctx.fail_runs:
                # fault: the downstream node (parameters + optimiser) fails transiently for THIS message
                kind, ctx.fail_runs = ctx.fail_runs.pop(0), ctx.fail_runs[1:]
                ctx.fault("downstream_failure_" + kind)
                if kind == "solver":
                    raise m.pulp.PulpSolverError("simulated: cbc could not be executed")
                raise AssertionError("ERROR: OPTIMIZATION FAILED (simulated)")
            return types.SimpleNamespace(percent_people_fed=50.0)

        def guard_compute(self_, *a, **k):
            ctx.compute_reached += 1
            raise core.HarnessError("compute_parameters_first_round reached although run_and_analyze_scenario is stubbed")

        def capture_rows(row, attrs):
            ctx.seen_row = row.copy()
            raise _Stop()

        m.rs.ScenarioRunner.run_and_analyze_scenario = stub_run
        m.par.Parameters.compute_parameters_first_round = guard_compute
        m.ap.AnimalModelBuilder.create_animal_objects = capture_rows

    def uninstall(self):
        m = self.m
        (m.rs.ScenarioRunner.run_and_analyze_scenario, m.par.Parameters.compute_parameters_first_round,
         m.ap.AnimalModelBuilder.create_animal_objects) = self._saved

    # ---- world access
    def row(self, iso3):
        return None if iso3 == "WOR" else ROWS[iso3].copy()

    def init_nested(self, iso3):
        if iso3 not in self._init_cache:
            loader = self.m.sc.Scenarios()
            with world.quiet():
                if iso3 == "WOR":
                    c = loader.init_global_food_system_properties()
                else:
                    c = loader.init_country_food_system_properties(self.row(iso3))
            self._init_cache[iso3] = c
        return copy.deepcopy(self._init_cache[iso3])

    def new_loader(self, iso3, nmonths):
        loader = self.m.sc.Scenarios()
        with world.quiet():
            if iso3 == "WOR":
                c = loader.init_global_food_system_properties()
            else:
                c = loader.init_country_food_system_properties(self.row(iso3))
        c["COUNTRY_CODE"] = iso3
        c["NMONTHS"] = nmonths
        return loader, c, {}

    def call_setter(self, loader, name, consts, tc, row):
        s = SETTER.get(name)
        f = getattr(loader, name)
        with world.quiet():
            if s is None or s["sig"] == "c":
                return f(consts)
            if s["sig"] == "cd":
                return f(consts, row)
            if s["sig"] == "ct":
                return f(consts, tc)
            return f(tc)


def _exc_name(e):
    return type(e).__name__


def run_dispatch(ctx, iso3, D, via="rofc"):
    """Send the dictionary object D to the real dispatcher. -> outcome dict."""
    m = ctx.m
    row = ctx.row(iso3)
    out = {"status": "accepted", "exc": None, "msg": "", "consts": None, "tc": None, "loader": None,
           "reached": False, "row": row}
    n0 = len(ctx.calls)
    try:
        with world.quiet():
            if via == "sdo":
                c, t, l = m.rs.ScenarioRunner().set_depending_on_option(D, country_data=row)
                out.update(consts=c, tc=t, loader=l)
            elif iso3 == "WOR":
                sr = m.rs.ScenarioRunner()
                c, t, l = sr.set_depending_on_option(D)
                sr.run_and_analyze_scenario(c, t, l, False, False, "", None, False, "world", "WOR", title="c13")
            else:
                r = m.rmnt.ScenarioRunnerNoTrade()
                row = r.apply_custom_parameters(row, D)
                out["row"] = row
                r.verify_country_data(row)
                r.run_optimizer_for_country(row, D, False, False, False, "", title="c13")
    except (KeyboardInterrupt, world.SimAbort, core.HarnessError):
        raise
    except BaseException as e:  # noqa: SystemExit / AssertionError / KeyError / anything = a rejection
        out.update(status="rejected", exc=_exc_name(e), msg=str(e)[:200])
    if len(ctx.calls) > n0:
        a, _k = ctx.calls[-1]
        out.update(reached=True, consts=a[0], tc=a[1], loader=a[2])
    return out


def _norm_key(k):
    i = k.find("[")
    return k if i < 0 else k[:i]


def check_constants(ctx, clause, ident, opts, out, iso3, witness_extra=None):
    """Accepted dictionary: the constants that reach the computation must equal the reference."""
    try:
        exp, exp_t, rewritten = ref_constants(opts, out["row"], ctx.init_nested(iso3))
    except KeyError as e:
        ctx.aborts += 1
        ctx.probe("no_reference:" + str(e)[:60])
        return True
    if rewritten:
        ctx.probe("known_to_fail_rewrite_applied")
    mm = compare_flat(flatten(out["consts"]), flatten(exp))
    mm += [("time:" + k, a, b) for k, a, b in compare_flat(flatten(out["tc"]), flatten(exp_t))]
    fl = flags_of(out["loader"])
    mm += [("flag:" + k, v, True) for k, v in fl.items() if v is not True]
    try:
        out["loader"].check_all_set()
    except AssertionError:
        mm.append(("check_all_set", "raised", "passes"))
    seen = set()
    for k, a, b in mm:
        nk = _norm_key(k)
        fam = owner_of(nk[5:] if nk.startswith("time:") else nk)
        if (fam, nk) in seen or len(seen) >= 6:
            continue
        seen.add((fam, nk))
        idn = dict(ident)
        idn.update({"kind": "constant_mismatch", "family": fam, "value": opts.get(fam), "key": nk})
        ctx.V.fail(clause, idn, {"iso3": iso3, "key": k, "real": a, "expected": b, "options": opts,
                                 "extra": witness_extra}, "constant differs from the documented value")
    return not mm


# =========================================================================== op executors
def op_dispatch(ctx, op):
    iso3, via = op["iso3"], op.get("via", "rofc")
    D = dict((k, v) for k, v in op["opts"])
    fault = op.get("fault") or {}
    fk = fault.get("kind")
    scale = scale_of(iso3)
    snap = core.digest(D)
    order = list(D)
    if fk == "downstream_failure":
        ctx.fail_runs = [fault.get("exc", "solver")]
    n_calls = len(ctx.calls)
    out = run_dispatch(ctx, iso3, D, via)
    ctx.fail_runs = []
    # (c) caller's dictionary
    ctx.V.check(V_DICT, core.digest(D) == snap, {"kind": "dict_modified", "entry": "run_optimizer_for_country" if via == "rofc" else "set_depending_on_option"},
                lambda: {"before": dict(op["opts"]), "after": D, "iso3": iso3}, "caller's option dictionary was modified")
    if list(D) != order:
        ctx.probe("caller_dict_key_order_changed")
    if fk and fk != "downstream_failure":
        ctx.fault(fk)
    foc = op.get("focus") or {}
    ctx.nontrivial.append(core.digest(["dispatch", scale, foc.get("family"), repr(foc.get("value")), fk]))
    acc = out["status"] == "accepted"
    ctx.log.add("OP", op="dispatch", iso3=iso3, fault=fk, focus=foc, status=out["status"], exc=out["exc"], reached=out["reached"])
    if fk == "downstream_failure":
        fk = None  # counted below under its own name
        if not acc:
            ctx.probe("downstream_failure_propagated:" + str(out["exc"]))  # fail-stop: nothing returned, no verdict
        else:
            # the dispatcher carried on after the failure and delivered (again): what it delivered last is judged
            ctx.probe("downstream_failure_swallowed")
            ctx.V.ev(V_VALUE)
            check_constants(ctx, V_VALUE, {"mode": "dispatch_after_downstream_failure", "scale": scale}, D, out, iso3,
                            {"deliveries": len(ctx.calls) - n_calls})
    elif fk in (None, "permute"):
        ctx.V.ev(V_VALUE)
        if not acc:
            ctx.V.fail(V_VALUE, {"kind": "supported_value_rejected", "family": foc.get("family"), "value": foc.get("value"),
                                 "scale": scale}, {"iso3": iso3, "options": D, "error": out["exc"], "msg": out["msg"]},
                       "a supported option value was rejected")
        else:
            if not out["reached"] and via == "rofc":
                ctx.V.fail(V_VALUE, {"kind": "accepted_but_computation_not_reached", "scale": scale}, {"iso3": iso3, "options": D})
            check_constants(ctx, V_VALUE, {"mode": "dispatch" if fk is None else "dispatch_permuted", "scale": scale}, D, out, iso3)
    elif fk == "readme_name":
        ctx.V.ev(V_VALUE)
        if not acc:
            ctx.V.fail(V_VALUE, {"kind": "readme_value_rejected", "family": fault["family"], "value": fault["value"], "scale": scale},
                       {"iso3": iso3, "error": out["exc"], "msg": out["msg"], "options": D},
                       "value documented in scenarios/README.md is rejected by the dispatcher")
        else:
            check_constants(ctx, V_VALUE, {"mode": "dispatch_readme_name", "scale": scale}, D, out, iso3)
    elif fk in ("unknown_value", "readme_disabled"):
        ctx.V.ev(V_INVALID)
        if fk == "readme_disabled":
            ctx.probe("readme_value_disabled_in_code:%s=%s:%s" % (fault["family"], fault["value"], out["exc"] or "accepted"))
        if acc or out["reached"]:
            ctx.V.fail(V_INVALID, {"kind": "unknown_value_accepted", "family": fault["family"], "value": repr(fault["value"]), "scale": scale},
                       {"iso3": iso3, "options": D, "reached_computation": out["reached"]},
                       "unknown option value was not rejected before the computation")
        else:
            ctx.probe("rejected_with:" + out["exc"])
    elif fk == "drop":
        ctx.V.ev(V_MISSING)
        if fault["family"] == "NMONTHS":
            ctx.probe("missing_NMONTHS:" + (out["exc"] or "accepted"))
        if acc or out["reached"]:
            ctx.V.fail(V_MISSING, {"kind": "missing_family_accepted", "family": fault["family"], "scale": scale},
                       {"iso3": iso3, "options": D, "reached_computation": out["reached"]},
                       "missing option was not rejected before the computation")
        else:
            ctx.probe("rejected_with:" + out["exc"])
    elif fk == "extra_key":
        ctx.probe("extra_key_%s:%s" % ("accepted" if acc else "rejected_" + out["exc"], fault["key"]))
        if acc:
            ref_opts = {k: v for k, v in D.items()}
            try:
                exp, exp_t, _ = ref_constants(ref_opts, out["row"], ctx.init_nested(iso3))
                mm = compare_flat(flatten(out["consts"]), flatten(exp))
                if mm:
                    ctx.probe("extra_key_changed_constants:%s->%s" % (fault["key"], _norm_key(mm[0][0])))
            except (KeyError, ValueError, TypeError):
                ctx.probe("extra_key_no_reference:" + fault["key"])
    elif fk in ("scale_mismatch", "override_out_of_range"):
        ctx.probe("%s_%s:%s" % (fk, "accepted" if acc else "rejected", fault.get("family") or fault.get("key")))
    return out


def _apply_prefix(ctx, loader, prefix, consts, tc, row):
    for p in prefix:
        try:
            ctx.call_setter(loader, p, consts, tc, row)
        except BaseException as e:  # noqa
            if isinstance(e, (KeyboardInterrupt, world.SimAbort)):
                raise
            ctx.aborts += 1
            ctx.probe("prefix_setter_failed:%s:%s" % (p, _exc_name(e)))
            return False
    return True


def op_setter(ctx, op):
    iso3, target, prefix = op["iso3"], op["target"], op["prefix"]
    scale = scale_of(iso3)
    row = ctx.row(iso3)
    loader, consts, tc = ctx.new_loader(iso3, op["nmonths"])
    if not _apply_prefix(ctx, loader, prefix, consts, tc, row):
        return
    snap_c, snap_t, snap_f = copy.deepcopy(consts), copy.deepcopy(tc), flags_of(loader)
    err = None
    try:
        ctx.call_setter(loader, target, consts, tc, row)
    except BaseException as e:  # noqa
        if isinstance(e, (KeyboardInterrupt, world.SimAbort)):
            raise
        err = e
    kind = op["pair"]
    first = prefix[-1] if prefix and kind != "single" else None
    ctx.nontrivial.append(core.digest(["setter", scale, kind, first, target]))
    ctx.log.add("OP", op="setter", iso3=iso3, pair=kind, first=first, target=target, err=_exc_name(err) if err else None)
    changed = compare_flat(flatten(consts), flatten(snap_c)) + compare_flat(flatten(tc), flatten(snap_t))
    flags_now = flags_of(loader)
    if kind == "helper":
        ctx.probe("helper_after_scenario_%s" % ("rejected" if err else "accepted"))
        if FLAG_UNGUARDED_HELPERS:
            ctx.fault("duplicate_setter")
            ctx.V.check(V_DUP, err is not None, {"kind": "helper_not_guarded", "family": "scenario", "first": first, "second": target},
                        {"iso3": iso3, "changed": changed[:5]}, "scenario building block sets the family a second time without rejection")
        return
    if kind == "intra":
        s = SETTER[target]
        ctx.fault("duplicate_setter")
        ctx.V.ev(V_DUP)
        if err is None:
            ctx.V.fail(V_DUP, {"kind": "second_call_accepted", "family": s["family"], "first": first, "second": target, "scale": scale},
                       {"iso3": iso3, "changed": changed[:8]}, "second setter call of the same family was accepted")
        elif changed or flags_now != snap_f:
            ctx.V.fail(V_DUP, {"kind": "mutated_before_rejection", "family": s["family"], "first": first, "second": target, "scale": scale},
                       {"iso3": iso3, "changed": changed[:8], "error": _exc_name(err)}, "rejected second call had already changed constants")
        else:
            ctx.probe("rejected_with:" + _exc_name(err))
        return
    # single / cross: accepted, and the diff is exactly the documented set
    s = SETTER[target]
    ctx.V.ev(V_VALUE)
    ident = {"mode": "setter", "setter": target, "family": s["family"], "value": s["value"], "scale": scale}
    if kind == "cross":
        ident["after_family"] = SETTER[first]["family"]
    if err is not None:
        ident["kind"] = "setter_rejected"
        ctx.V.fail(V_VALUE, ident, {"iso3": iso3, "after": first, "error": _exc_name(err), "msg": str(err)[:200]},
                   "setter valid for this scale was rejected")
        return
    r = ref_family(s["family"], s["value"], row, op["nmonths"], snap_c)
    if r is None:
        ctx.aborts += 1
        ctx.probe("no_reference:%s=%s" % (s["family"], s["value"]))
        return
    exp = overlay(copy.deepcopy(snap_c), r[0])
    exp_t = dict(snap_t)
    exp_t.update(r[1])
    mm = compare_flat(flatten(consts), flatten(exp))
    mm += [("time:" + k, a, b) for k, a, b in compare_flat(flatten(tc), flatten(exp_t))]
    want_flags = dict(snap_f)
    want_flags[FLAG_OF_FAMILY[s["family"]]] = True
    mm += [("flag:" + k, flags_now.get(k), want_flags.get(k)) for k in sorted(set(flags_now) | set(want_flags))
           if flags_now.get(k) != want_flags.get(k)]
    seen = set()
    for k, a, b in mm:
        nk = _norm_key(k)
        if nk in seen or len(seen) >= 6:
            continue
        seen.add(nk)
        idn = dict(ident)
        idn.update({"kind": "constant_mismatch", "key": nk})
        ctx.V.fail(V_VALUE, idn, {"iso3": iso3, "after": first, "key": k, "real": a, "expected": b},
                   "diff of the constants across the setter differs from the documented set")


def op_init_pair(ctx, op):
    iso3 = op["iso3"]
    loader = ctx.m.sc.Scenarios()

    def call(name):
        with world.quiet():
            if name == "init_country_food_system_properties":
                return getattr(loader, name)(ctx.row(iso3))
            return getattr(loader, name)()

    try:
        call(op["first"])
    except BaseException as e:  # noqa
        ctx.aborts += 1
        ctx.probe("prefix_setter_failed:%s:%s" % (op["first"], _exc_name(e)))
        return
    snap_f = flags_of(loader)
    err = None
    try:
        call(op["second"])
    except BaseException as e:  # noqa
        if isinstance(e, (KeyboardInterrupt, world.SimAbort)):
            raise
        err = e
    ctx.fault("duplicate_setter")
    ctx.nontrivial.append(core.digest(["init_pair", op["first"], op["second"]]))
    ctx.log.add("OP", op="init_pair", first=op["first"], second=op["second"], err=_exc_name(err) if err else None)
    ctx.V.check(V_DUP, err is not None, {"kind": "second_call_accepted", "family": "scale", "first": op["first"], "second": op["second"]},
                {"iso3": iso3, "flags_before": snap_f, "flags_after": flags_of(loader)}, "second initialisation of the scale was accepted")


def op_post_dup(ctx, op):
    iso3, target = op["iso3"], op["target"]
    D = dict((k, v) for k, v in op["opts"])
    out = run_dispatch(ctx, iso3, D, "sdo")
    if out["status"] != "accepted":
        ctx.aborts += 1
        ctx.probe("post_dup_base_rejected:" + str(out["exc"]))
        return
    consts, tc, loader = out["consts"], out["tc"], out["loader"]
    snap_c, snap_t, snap_f = copy.deepcopy(consts), copy.deepcopy(tc), flags_of(loader)
    err = None
    try:
        ctx.call_setter(loader, target, consts, tc, out["row"])
    except BaseException as e:  # noqa
        if isinstance(e, (KeyboardInterrupt, world.SimAbort)):
            raise
        err = e
    changed = compare_flat(flatten(consts), flatten(snap_c)) + compare_flat(flatten(tc), flatten(snap_t))
    s = SETTER[target]
    ctx.fault("duplicate_setter")
    ctx.nontrivial.append(core.digest(["post_dup", scale_of(iso3), target]))
    ctx.log.add("OP", op="post_dup", iso3=iso3, target=target, err=_exc_name(err) if err else None)
    ctx.V.ev(V_DUP)
    first = "dispatch:%s=%s" % (s["family"], D.get(s["family"]))
    if err is None:
        ctx.V.fail(V_DUP, {"kind": "second_call_accepted", "family": s["family"], "first": first, "second": target, "scale": scale_of(iso3)},
                   {"iso3": iso3, "changed": changed[:8]}, "setter accepted on a loader whose family the dispatcher had already set")
    elif changed or flags_of(loader) != snap_f:
        ctx.V.fail(V_DUP, {"kind": "mutated_before_rejection", "family": s["family"], "first": first, "second": target, "scale": scale_of(iso3)},
                   {"iso3": iso3, "changed": changed[:8]}, "rejected second call had already changed constants")


def op_all_set(ctx, op):
    iso3, skip = op["iso3"], op["skip"]
    row = ctx.row(iso3)
    if skip == "scale":
        loader = ctx.m.sc.Scenarios()
        loader.init_generic_scenario()
    else:
        loader, consts, tc = ctx.new_loader(iso3, op["nmonths"])
        names = [n for fam, n in op["choice"] if fam != skip]
        if not _apply_prefix(ctx, loader, names, consts, tc, row):
            return
    err = None
    try:
        loader.check_all_set()
    except AssertionError as e:
        err = e
    ctx.nontrivial.append(core.digest(["all_set", scale_of(iso3), skip]))
    ctx.log.add("OP", op="all_set", iso3=iso3, skip=skip, raised=err is not None)
    if skip is None:
        ctx.V.check(V_VALUE, err is None, {"kind": "check_all_set_raised_with_all_families", "scale": scale_of(iso3)},
                    {"iso3": iso3, "flags": flags_of(loader)}, "all families set directly, final all-set check still raises")
    else:
        ctx.fault("drop_family")
        ctx.V.check(V_MISSING, err is not None, {"kind": "check_all_set_passed_without", "family": skip, "scale": scale_of(iso3)},
                    {"iso3": iso3, "flags": flags_of(loader)}, "final all-set check passes although a family was never set")


def _dict_check(ctx, entry, D, snap, before, extra=None):
    ok = core.digest(D) == snap
    ctx.V.check(V_DICT, ok, {"kind": "dict_modified", "entry": entry},
                lambda: {"before": before, "after": copy.deepcopy(D), "extra": extra,
                         "keys_changed": sorted(set(k for k in set(D) | set(before) if k not in D or k not in before or core.digest(D[k]) != core.digest(before[k])), key=str)},
                "caller's option dictionary was modified")
    return ok


def op_same_dict(ctx, op):
    A, B, via = op["isoA"], op["isoB"], op["via"]
    D = dict((k, v) for k, v in op["opts"])
    before = copy.deepcopy(D)
    snap = core.digest(D)
    ctx.fault("same_dict_two_countries")
    ctx.nontrivial.append(core.digest(["same_dict", via, A, B, core.digest(before)]))
    ctx.log.add("OP", op="same_dict", A=A, B=B, via=via)
    m = ctx.m
    if via == "rofc":
        for X in (A, B):
            out = run_dispatch(ctx, X, D, "rofc")
            _dict_check(ctx, "run_optimizer_for_country", D, snap, before, {"after_country": X})
            ctx.V.ev(V_VALUE)
            if out["status"] != "accepted":
                ctx.V.fail(V_VALUE, {"kind": "supported_value_rejected", "mode": "same_dict", "scale": C},
                           {"iso3": X, "options": before, "error": out["exc"], "msg": out["msg"]})
            else:
                check_constants(ctx, V_VALUE, {"mode": "same_dict", "scale": C}, before, out, X, {"first_country": A})
        return
    n0 = len(ctx.calls)
    r = m.rmnt.ScenarioRunnerNoTrade()
    err = None
    try:
        with world.quiet():
            if via == "rmnt":
                r.run_model_no_trade(title="c13", create_pptx_with_all_countries=False, show_country_figures=False,
                                     show_map_figures=False, add_map_slide_to_pptx=False, scenario_option=D,
                                     countries_list=[A, B], return_results=True)
            else:
                r.run_many_options([D, D], "c13", add_map_slide_to_pptx=False, show_map_figures=False, countries_list=[A, B])
    except BaseException as e:  # noqa
        if isinstance(e, (KeyboardInterrupt, world.SimAbort, core.HarnessError)):
            raise
        err = e
    entry = "run_model_no_trade" if via == "rmnt" else "run_many_options"
    _dict_check(ctx, entry, D, snap, before)
    ctx.V.ev(V_VALUE)
    if err is not None:
        ctx.V.fail(V_VALUE, {"kind": "supported_value_rejected", "mode": entry, "scale": C},
                   {"countries": [A, B], "options": before, "error": _exc_name(err), "msg": str(err)[:200]})
        return
    want = 2 if via == "rmnt" else 4
    if A == B:
        want //= 2
    got = ctx.calls[n0:]
    if len(got) != want:
        ctx.probe("%s_unexpected_call_count:%d" % (entry, len(got)))
    for a, _k in got:
        X = a[9]
        row = a[6]
        out = {"consts": a[0], "tc": a[1], "loader": a[2], "row": row}
        check_constants(ctx, V_VALUE, {"mode": entry, "scale": C}, before, out, X, {"countries": [A, B]})


def op_defaults(ctx, op):
    m = ctx.m
    D = dict((k, v) for k, v in op["opts"])
    before, snap = copy.deepcopy(D), core.digest(D)
    ctx.nontrivial.append(core.digest(["entry", op["entry"], sorted(before)]))
    ctx.log.add("OP", op="entry", entry=op["entry"])
    rec = []
    err = None
    try:
        with world.quiet():
            if op["entry"] == "run_model_defaults_no_trade":
                r = m.rmnt.ScenarioRunnerNoTrade()
                r.run_model_no_trade = lambda **k: rec.append(k)
                r.run_model_defaults_no_trade(D)
            elif op["entry"] == "alter_scenario_if_known_to_fail":
                res = m.rs.ScenarioRunner().alter_scenario_if_known_to_fail(D, op["iso3"])
                exp, _ = ref_known_to_fail(before, op["iso3"])
                if res is D:
                    ctx.probe("alter_returned_callers_object")
                if core.digest(res) != core.digest(exp):
                    ctx.probe("alter_result_differs_from_documented_rule")
            elif op["entry"] == "apply_custom_parameters":
                m.rmnt.ScenarioRunnerNoTrade().apply_custom_parameters(ctx.row(op["iso3"]), D)
    except BaseException as e:  # noqa
        if isinstance(e, (KeyboardInterrupt, world.SimAbort, core.HarnessError)):
            raise
        err = e
        ctx.probe("entry_raised:%s:%s" % (op["entry"], _exc_name(e)))
    _dict_check(ctx, op["entry"], D, snap, before, {"error": _exc_name(err) if err else None})


def op_yaml(ctx, op):
    m = ctx.m
    cfg = copy.deepcopy(op["config"])
    before, snap = copy.deepcopy(cfg), core.digest(cfg)
    rec = []
    cls = m.rmnt.ScenarioRunnerNoTrade
    saved = cls.run_model_no_trade
    cls.run_model_no_trade = lambda self_, **k: rec.append(k)
    try:
        with world.quiet():
            m.yaml_runner.run_scenarios_from_yaml(cfg, False, False, False)
    finally:
        cls.run_model_no_trade = saved
    ctx.nontrivial.append(core.digest(["entry", "run_scenarios_from_yaml", sorted(before["simulations"])]))
    ctx.log.add("OP", op="entry", entry="run_scenarios_from_yaml")
    changed = sorted(n for n in before["simulations"] if core.digest(before["simulations"][n]) != core.digest(cfg["simulations"].get(n)))
    ctx.V.check(V_DICT, core.digest(cfg) == snap, {"kind": "dict_modified", "entry": "run_scenarios_from_yaml"},
                {"simulations_changed": changed, "before": before["simulations"].get(changed[0]) if changed else None,
                 "after": cfg["simulations"].get(changed[0]) if changed else None},
                "the option dictionaries inside the caller's configuration were modified")


def _override_targets(key, value, flat_without):
    if key == MINPCT or key == "RATIO_STOCKS_UNTOUCHED" or key == "kg_meat_per_large_animal":
        return {key: float(value)}
    if key in ("CROP_PRODUCTION_MULTIPLIER", "GRASSES_PRODUCTION_MULTIPLIER"):
        pref = "RATIO_CROPS_YEAR" if key.startswith("CROP") else "RATIO_GRASSES_YEAR"
        return {k: v * float(value) for k, v in flat_without.items() if k.startswith(pref)}
    if key.endswith("_head"):
        return {key + "_start": int(value)}
    raise KeyError(key)


def op_override(ctx, op):
    iso3, key, value = op["iso3"], op["key"], op["value"]
    scale = scale_of(iso3)
    D0 = dict((k, v) for k, v in op["opts"])
    D1 = dict(D0)
    D1[key] = value
    o0 = run_dispatch(ctx, iso3, D0, "sdo")
    if o0["status"] != "accepted":
        ctx.aborts += 1
        ctx.probe("override_base_rejected:" + str(o0["exc"]))
        return
    o1 = run_dispatch(ctx, iso3, D1, "sdo")
    ctx.nontrivial.append(core.digest(["override", scale, key, repr(value)]))
    ctx.log.add("OP", op="override", iso3=iso3, key=key, value=value, status=o1["status"])
    ctx.V.ev(V_OVR)
    ident = {"kind": "override", "key": key, "scale": scale}
    if o1["status"] != "accepted":
        ctx.V.fail(V_OVR, dict(ident, effect="rejected"), {"iso3": iso3, "value": value, "error": o1["exc"], "msg": o1["msg"]},
                   "in-range numeric override was rejected")
        return
    f0, f1 = flatten(o0["consts"]), flatten(o1["consts"])
    targets = _override_targets(key, value, f0)
    changed = [k for k, _a, _b in compare_flat(f1, f0)]
    tchanged = [k for k, _a, _b in compare_flat(flatten(o1["tc"]), flatten(o0["tc"]))]
    others = [k for k in changed if k not in targets] + ["time:" + k for k in tchanged]
    wrong = [k for k, v in targets.items() if k not in f1 or not leaf_eq(f1[k], v)]
    if others:
        ctx.V.fail(V_OVR, dict(ident, effect="other_input_changed", other=_norm_key(others[0])),
                   {"iso3": iso3, "value": value, "others": others[:8]}, "override changed an input it does not name")
    if wrong:
        ctx.V.fail(V_OVR, dict(ident, effect="target_wrong", target=_norm_key(wrong[0])),
                   {"iso3": iso3, "value": value, "wrong": [(k, f1.get(k, MISSING), targets[k]) for k in wrong[:8]]},
                   "override did not set its target to the given value")


def _zero_food(m, n=2):
    import numpy as np

    return m.food.Food(kcals=np.zeros(n), fat=np.zeros(n), protein=np.zeros(n), kcals_units="billion kcals each month",
                       fat_units="thousand tons each month", protein_units="thousand tons each month")


def head_row_seen(ctx, consts):
    """The head-count row AnimalModelBuilder.create_animal_objects receives for these constants
    (entered exactly as Parameters does: CalculateFeedAndMeat(country_code=..., constants_inputs=constants))."""
    m = ctx.m
    ctx.seen_row = None
    err = None
    try:
        with world.quiet():
            m.ap.CalculateFeedAndMeat(country_code=consts["COUNTRY_CODE"], available_feed=_zero_food(m),
                                      available_grass=_zero_food(m), scenario=consts["BREEDING_STRATEGY"],
                                      kcals_per_head_meat_dict=None, constants_inputs=consts)
    except _Stop:
        pass
    except BaseException as e:  # noqa
        if isinstance(e, (KeyboardInterrupt, world.SimAbort)):
            raise
        err = e
    return ctx.seen_row, err


def _cell(x):
    try:
        return float(x)
    except (TypeError, ValueError):
        return x


def op_head(ctx, op):
    iso3, sp, v = op["iso3"], op["species"], int(op["value"])
    D0 = dict((k, v_) for k, v_ in op["opts"])
    key = sp + "_head"
    if iso3 not in ctx._base_rows:
        o0 = run_dispatch(ctx, iso3, D0, "sdo")
        if o0["status"] != "accepted":
            ctx.aborts += 1
            ctx.probe("head_base_rejected:" + str(o0["exc"]))
            return
        base, err = head_row_seen(ctx, o0["consts"])
        if base is None:
            ctx.aborts += 1
            ctx.probe("head_base_row_not_seen:%s:%s" % (iso3, _exc_name(err) if err else "?"))
            return
        ctx._base_rows[iso3] = base
    base = ctx._base_rows[iso3]
    if key in base.index and leaf_eq(_cell(base[key]), v):
        v += 1
    D1 = dict(D0)
    D1[key] = v
    o1 = run_dispatch(ctx, iso3, D1, "sdo")
    ctx.nontrivial.append(core.digest(["head", iso3, sp]))
    ctx.V.ev(V_OVR)
    ident = {"kind": "head_override", "species": sp, "iso3": iso3}
    if o1["status"] != "accepted":
        ctx.log.add("OP", op="head", iso3=iso3, species=sp, effect="rejected")
        ctx.V.fail(V_OVR, dict(ident, effect="rejected"), {"value": v, "error": o1["exc"], "msg": o1["msg"]})
        return
    row, err = head_row_seen(ctx, o1["consts"])
    if row is None:
        ctx.log.add("OP", op="head", iso3=iso3, species=sp, effect="main_raised")
        ctx.V.fail(V_OVR, dict(ident, effect="main_raised"), {"value": v, "error": _exc_name(err) if err else None, "msg": str(err)[:200]},
                   "animal_populations.main raised before building the herds")
        return
    effects, wit = [], {"value": v, "row_name": row.name}
    new_cells = [k for k in row.index if k not in base.index]
    gone = [k for k in base.index if k not in row.index]
    others = [k for k in row.index if k in base.index and k != key and not leaf_eq(_cell(row[k]), _cell(base[k]))]
    if key not in row.index or not leaf_eq(_cell(row[key]), v):
        effects.append("target_unchanged" if key in row.index and leaf_eq(_cell(row[key]), _cell(base[key])) else "target_wrong")
        wit["target_cell"] = [key, _cell(row[key]) if key in row.index else MISSING, "base", _cell(base[key]) if key in base.index else MISSING]
    if new_cells:
        effects.append("new_cell")
        wit["new_cells"] = [(k, _cell(row[k])) for k in new_cells]
    if gone or others:
        effects.append("other_cell_changed")
        wit["others"] = [(k, _cell(base[k]), _cell(row[k])) for k in others[:6]] + [(k, "gone") for k in gone[:3]]
    eff = "+".join(sorted(effects)) or "ok"
    ctx.log.add("OP", op="head", iso3=iso3, species=sp, effect=eff)
    if effects:
        ctx.V.fail(V_OVR, dict(ident, effect=eff), wit,
                   "head-count override does not change exactly the named species' cell of the row the herd builder sees")


EXEC = {"dispatch": op_dispatch, "setter": op_setter, "init_pair": op_init_pair, "post_dup": op_post_dup,
        "all_set": op_all_set, "same_dict": op_same_dict, "entry": op_defaults, "yaml": op_yaml,
        "override": op_override, "head": op_head}


def execute_ops(spec):
    log = core.EventLog()
    ctx = Ctx(log)
    d = world.enter_history("c13-%s" % spec["h"])
    ctx.install()
    try:
        for i, op in enumerate(spec["ops"]):
            nv = len(ctx.V.violations)
            EXEC[op["k"]](ctx, op)
            if len(ctx.sample) < 3 or (len(ctx.V.violations) > nv and len(ctx.sample) < 8):
                ctx.sample.append({"op": op, "violations_raised": len(ctx.V.violations) - nv})
    finally:
        ctx.uninstall()
        world.leave_history(d)
    if spec["h"] == 0:
        for x in UNDOCUMENTED_VALUES:
            ctx.probe("accepted_value_not_in_readme:" + x)
    for v in ctx.V.violations:
        log.add("MONITOR", clause=v.clause, identity=v.identity)
    if ctx.compute_reached:
        raise core.HarnessError("compute_parameters_first_round was reached %d times" % ctx.compute_reached)
    return {
        "violations": [v.to_json() for v in ctx.V.violations],
        "evaluations": sum(ctx.V.clauses.values()),
        "nontrivial": ctx.nontrivial,
        "clauses": dict(ctx.V.clauses),
        "faults": ctx.faults,
        "probes": ctx.probes,
        "statuses": {"ops": len(spec["ops"])},
        "log_digest": log.digest(),
        "sim_months": 0,
        "aborts": ctx.aborts,
        "sample": {"h": spec["h"], "n_ops": len(spec["ops"]), "ops": ctx.sample},
    }


# =========================================================================== plan (workload + fault enumeration)
NMONTHS_CHOICES = [12, 24] + list(workload.HORIZONS)
CHUNK = {"quick": 160, "thorough": 420}
_PLAN_CACHE = {}

TRIGGER_SLV_ALB = {"cull": "do_eat_culled", "scenario": "seaweed", "shutoff": "continued"}
TRIGGER_ECU = {"scenario": "greenhouse", "crop_disruption": "zero", "meat_strategy": "feed_only_ruminants",
               "ratio_stocks_untouched": "zero", "cull": "do_eat_culled", "shutoff": "long_delayed_shutoff"}

OVERRIDE_VALUES = {
    MINPCT: [0, 10, 100, 37.5], "RATIO_STOCKS_UNTOUCHED": [0, 1, 0.25], "CROP_PRODUCTION_MULTIPLIER": [0, 1, 0.5, 2, 10],
    "GRASSES_PRODUCTION_MULTIPLIER": [0, 1, 0.5, 2, 10], "kg_meat_per_large_animal": [150, 269.7, 350.0],
}
OVERRIDE_OUT_OF_RANGE = [(MINPCT, 101), (MINPCT, -1), ("RATIO_STOCKS_UNTOUCHED", 1.5), ("CROP_PRODUCTION_MULTIPLIER", 11),
                         ("GRASSES_PRODUCTION_MULTIPLIER", -0.5)]
EXTRA_KEYS = [("buffer", "zero"), ("end_simulation_stocks_ratio", "no_stored_between_years"), ("title", "a title"),
              ("Scale", "country"), ("foo", 1), ("population", 5000000), ("unicorn_head", 7), ("scenario ", "seaweed")]


def base_opts(rng, iso3):
    return workload.random_options(rng, scale_of(iso3), horizon=rng.pick(NMONTHS_CHOICES))


def pairs(o, rng=None):
    items = [[k, v] for k, v in o.items()]
    if rng is not None:
        rng.shuffle(items)
    return items


def bogus_values(fam, scale):
    valid = values_table(scale)[fam]
    other = "do_eat_culled" if fam != "cull" else "enabled"
    v0 = valid[0]
    return ["__unknown__", "", v0.upper() if v0.upper() != v0 else v0 + "X", v0 + " ", None, 0, True, other, [v0]]


def scale_mismatch_values(scale):
    tc, tg = workload.COUNTRY_VALUES, workload.GLOBAL_VALUES
    out = []
    for fam in FAMILIES:
        mine, theirs = (tc, tg) if scale == C else (tg, tc)
        for v in theirs[fam]:
            if v not in mine[fam]:
                out.append((fam, v))
    return out


def prereq_names(involved):
    if not any(SETTER[n]["needs_store"] for n in involved if n in SETTER):
        return []
    fams = {SETTER[n]["family"] for n in involved if n in SETTER}
    if "stored_food" not in fams:
        return ["set_baseline_stored_food"]
    if "ratio_stocks_untouched" not in fams:
        return ["set_stored_food_buffer_zero"]
    return []


def _dispatch_op(iso3, o, rng, focus, fault=None, via="rofc", permute_p=0.0):
    items = pairs(o)
    if fault is None and permute_p and rng.chance(permute_p):
        rng.shuffle(items)
        fault = {"kind": "permute"}
    return {"k": "dispatch", "iso3": iso3, "opts": items, "via": via, "fault": fault, "focus": focus}


def build_plan(seed, tier):
    key = (seed, tier)
    if key in _PLAN_CACHE:
        return _PLAN_CACHE[key]
    thorough = tier == "thorough"
    rng = core.Rng(seed, "C13", "plan", tier)
    countries = list(CODES)
    all_codes = countries + ["WOR"]
    pickc = rng.sub("countries")
    seeded = pickc.sample(countries, 12)
    small_ctx = ["USA", seeded[0], "WOR"]
    ops = []

    # A. every family x every supported value (dispatch; a third with permuted key order)
    r = rng.sub("values")
    codes_a = all_codes if thorough else ["USA", seeded[0], seeded[1], "WOR"]
    for iso3 in codes_a:
        tab = values_table(scale_of(iso3))
        o = base_opts(r, iso3)
        ops.append(_dispatch_op(iso3, o, r, {"family": "scale", "value": o["scale"]}, permute_p=0.3))
        for fam in FAMILIES:
            if fam == "scale":
                continue
            for v in tab[fam]:
                for _rep in range(2 if thorough else 1):
                    o = base_opts(r, iso3)
                    o[fam] = v
                    ops.append(_dispatch_op(iso3, o, r, {"family": fam, "value": v}, permute_p=0.3))
    # every dictionary of the fixed core once more with an explicit permutation fault
    for iso3 in small_ctx:
        for _ in range(12 if thorough else 4):
            o = base_opts(r, iso3)
            items = pairs(o, r)
            ops.append({"k": "dispatch", "iso3": iso3, "opts": items, "via": "rofc", "fault": {"kind": "permute"},
                        "focus": {"family": "*", "value": core.digest(items)[:8]}})

    # B. every missing family
    r = rng.sub("missing")
    codes_b = (seeded[:10] + ["USA", "SLV", "WOR"]) if thorough else [seeded[2], "WOR"]
    for iso3 in codes_b:
        for fam in FAMILIES + ["NMONTHS"]:
            o = base_opts(r, iso3)
            del o[fam]
            ops.append(_dispatch_op(iso3, o, r, {"family": fam, "value": None}, {"kind": "drop", "family": fam},
                                    via=r.pick(["rofc", "sdo"])))

    # C. unknown values, README-only names, README-listed values the code disables, scale mismatches
    r = rng.sub("invalid")
    codes_c = [seeded[3], seeded[4], "USA", "WOR"] if thorough else [seeded[3], "WOR"]
    for iso3 in codes_c:
        sc = scale_of(iso3)
        for fam in FAMILIES:
            for bv in bogus_values(fam, sc):
                o = base_opts(r, iso3)
                o[fam] = bv
                ops.append(_dispatch_op(iso3, o, r, {"family": fam, "value": repr(bv)},
                                        {"kind": "unknown_value", "family": fam, "value": bv}))
        for fam, vals in README_ONLY_VALUES.items():
            for v in vals:
                o = base_opts(r, iso3)
                o[fam] = v
                ops.append(_dispatch_op(iso3, o, r, {"family": fam, "value": v}, {"kind": "readme_name", "family": fam, "value": v}))
        for fam, vals in README_DISABLED_VALUES.items():
            for v in vals:
                o = base_opts(r, iso3)
                o[fam] = v
                ops.append(_dispatch_op(iso3, o, r, {"family": fam, "value": v}, {"kind": "readme_disabled", "family": fam, "value": v}))
        for fam, v in scale_mismatch_values(sc):
            o = base_opts(r, iso3)
            o[fam] = v
            ops.append(_dispatch_op(iso3, o, r, {"family": fam, "value": v}, {"kind": "scale_mismatch", "family": fam, "value": v}))
        for k, v in OVERRIDE_OUT_OF_RANGE:
            o = base_opts(r, iso3)
            o[k] = v
            ops.append(_dispatch_op(iso3, o, r, {"family": k, "value": v}, {"kind": "override_out_of_range", "key": k, "value": v}))
        # D. unknown extra keys (counted, not alarmed: the statement does not mention them)
        for k, v in EXTRA_KEYS:
            o = base_opts(r, iso3)
            o[k] = v
            ops.append(_dispatch_op(iso3, o, r, {"family": "+" + k, "value": v}, {"kind": "extra_key", "key": k, "value": v}))

    # E/F/G. setters called directly: singles, every ordered pair within a family, pairs across families
    r = rng.sub("setters")
    ctx_pairs = small_ctx if thorough else [seeded[0], "WOR"]
    for iso3 in ctx_pairs:
        sc = scale_of(iso3)
        valid = [s for s in SETTERS if sc in s["scales"]]
        for s in valid:
            ops.append({"k": "setter", "iso3": iso3, "nmonths": r.pick(NMONTHS_CHOICES), "pair": "single",
                        "prefix": prereq_names([s["name"]]), "target": s["name"]})
        for s1 in valid:
            for s2 in setters_of(s1["family"]):
                ops.append({"k": "setter", "iso3": iso3, "nmonths": r.pick(NMONTHS_CHOICES), "pair": "intra",
                            "prefix": prereq_names([s1["name"], s2["name"]]) + [s1["name"]], "target": s2["name"]})
        for s1 in setters_of("scenario", sc):
            for hname in SCENARIO_HELPERS:
                ops.append({"k": "setter", "iso3": iso3, "nmonths": 48, "pair": "helper", "prefix": [s1["name"]], "target": hname})
        for a in INITS:
            for b in INITS:
                ops.append({"k": "init_pair", "iso3": "USA" if iso3 == "WOR" else iso3, "first": a, "second": b})
        cross = [(s1, s2) for s1 in valid for s2 in valid if s1["family"] != s2["family"]]
        if not thorough:
            cross = r.sample(cross, 350)
        for s1, s2 in cross:
            ops.append({"k": "setter", "iso3": iso3, "nmonths": r.pick(NMONTHS_CHOICES), "pair": "cross",
                        "prefix": prereq_names([s1["name"], s2["name"]]) + [s1["name"]], "target": s2["name"]})
        # H. every setter once more on the loader the dispatcher returns
        for s in SETTERS:
            ops.append({"k": "post_dup", "iso3": iso3, "opts": pairs(base_opts(r, iso3)), "target": s["name"]})
        # I. final all-set check with one family never set
        for skip in [None] + FAMILIES:
            choice = [[fam, r.pick(setters_of(fam, sc))["name"]] for fam in REF_ORDER]
            ops.append({"k": "all_set", "iso3": iso3, "nmonths": r.pick(NMONTHS_CHOICES), "skip": skip, "choice": choice})

    # J. the same caller dictionary object for two countries
    r = rng.sub("same_dict")

    def sd_opts(a, b):
        o = base_opts(r, a)
        if "SLV" in (a, b) or "ALB" in (a, b):
            o.update(TRIGGER_SLV_ALB)
        elif "ECU" in (a, b):
            o.update(TRIGGER_ECU)
        workload.random_overrides(r, o, a, 0.4)
        if r.chance(0.3):
            o[r.pick(SPECIES) + "_head"] = r.randrange(1, 10 ** 6)
        return o

    firsts = countries if thorough else (["SLV", "ALB", "ECU"] + seeded[:7])
    for a in firsts:
        b = r.pick(countries)
        if a in ("SLV", "ALB", "ECU") or r.chance(0.5):
            a, b = (a, b) if r.chance(0.5) else (b, a)
        ops.append({"k": "same_dict", "isoA": a, "isoB": b, "via": "rofc", "opts": pairs(sd_opts(a, b))})
    for i in range(24 if thorough else 2):
        a, b = r.pick(["SLV", "ALB", "ECU", "USA"] + seeded), r.pick(countries)
        ops.append({"k": "same_dict", "isoA": a, "isoB": b, "via": "rmnt" if i % 3 else "many", "opts": pairs(sd_opts(a, b))})

    # K. other entry points that receive the caller's dictionary
    r = rng.sub("entries")
    for i in range(6 if thorough else 2):
        o = base_opts(r, "USA")
        variants = [("full", dict(o)), ("with_buffer", dict(o, buffer="baseline"))]
        lean = dict(o)
        for k in ("waste", "nutrition", "shutoff", "cull", "fat"):
            del lean[k]
        variants.append(("lean", lean))
        for _name, d in variants:
            ops.append({"k": "entry", "entry": "run_model_defaults_no_trade", "opts": pairs(d)})
        for iso3 in ["SLV", "ALB", "ECU", r.pick(countries)]:
            for trig in (True, False):
                o = base_opts(r, iso3)
                if trig:
                    o.update(TRIGGER_ECU if iso3 == "ECU" else TRIGGER_SLV_ALB)
                ops.append({"k": "entry", "entry": "alter_scenario_if_known_to_fail", "iso3": iso3, "opts": pairs(o)})
        iso3 = r.pick(countries)
        o = workload.random_overrides(r, base_opts(r, iso3), iso3, 0.6)
        o["population"] = 1234567
        o["kg_meat_per_large_animal"] = 300
        ops.append({"k": "entry", "entry": "apply_custom_parameters", "iso3": iso3, "opts": pairs(o)})
        sims = {}
        for name in ("first", "second"):
            d = base_opts(r, "USA")
            del d["NMONTHS"]
            d["title"] = "t " + name
            sims[name] = d
        ops.append({"k": "yaml", "config": {"settings": {"NMONTHS": r.pick(NMONTHS_CHOICES), "countries": ["USA", "SWT"]}, "simulations": sims}})

    # L. head-count override: every species column x every country (+ the world row)
    r = rng.sub("heads")
    head_base = {}

    def hb(iso3):
        if iso3 not in head_base:
            head_base[iso3] = pairs(base_opts(r, iso3))
        return head_base[iso3]

    if thorough:
        hc = [(c, s) for c in all_codes for s in SPECIES]
    else:
        hc = [(c, s) for c in ["USA", "SWT", "IND", "WOR"] for s in SPECIES]
        rest = [(c, s) for c in all_codes if c not in ("USA", "SWT", "IND", "WOR") for s in SPECIES]
        hc += r.sample(rest, 240)
    for c, s in hc:
        ops.append({"k": "head", "iso3": c, "species": s, "value": r.randrange(1, 10 ** 7), "opts": hb(c)})

    # M. the other numeric overrides
    r = rng.sub("overrides")
    codes_m = all_codes if thorough else ["USA", "WOR"] + seeded[5:9]
    for iso3 in codes_m:
        for k, vals in OVERRIDE_VALUES.items():
            extra = {MINPCT: round(r.uniform(0, 100), 3), "RATIO_STOCKS_UNTOUCHED": round(r.random(), 4)}.get(k, round(r.uniform(0.05, 9.5), 3))
            vs = vals + [extra] if thorough else [r.pick(vals), extra]
            for v in vs:
                ops.append({"k": "override", "iso3": iso3, "key": k, "value": v, "opts": pairs(base_opts(r, iso3))})
        sp = r.pick(SPECIES)
        ops.append({"k": "override", "iso3": iso3, "key": sp + "_head", "value": r.randrange(0, 10 ** 7), "opts": pairs(base_opts(r, iso3))})

    # N. the node downstream of the dispatcher (parameters + optimiser) fails transiently for one message; the same
    #    country is then sent a clean message with the same scenario / cull and another feed shut-off
    r = rng.sub("downstream")
    nd = []
    for iso3 in (r.sample(countries, 40) + ["USA", "SLV"]) if thorough else (["USA"] + seeded[:5]):
        o = base_opts(r, iso3)
        o["shutoff"] = r.pick([v for v in values_table(C)["shutoff"] if v != "immediate"])
        nd.append(_dispatch_op(iso3, o, r, {"family": "shutoff", "value": o["shutoff"]},
                               {"kind": "downstream_failure", "exc": r.pick(["solver", "assert"])}))
        o2 = dict(o)
        o2["shutoff"] = r.pick([v for v in values_table(C)["shutoff"] if v not in ("immediate", o["shutoff"])])
        o2["waste"] = r.pick(values_table(C)["waste"])
        nd.append(_dispatch_op(iso3, o2, r, {"family": "shutoff", "value": o2["shutoff"]}))

    rng.sub("shuffle").shuffle(ops)
    # the failure / clean-retry pairs stay adjacent and in order, at seeded places of the plan
    for i in range(0, len(nd), 2):
        at = r.randrange(len(ops) + 1)
        ops[at:at] = nd[i:i + 2]
    _PLAN_CACHE[key] = ops
    return ops


def n_histories(seed, tier):
    n = len(build_plan(seed, tier))
    return (n + CHUNK[tier] - 1) // CHUNK[tier]


def history_ops(seed, h, tier):
    ops = build_plan(seed, tier)
    c = CHUNK[tier]
    return ops[h * c:(h + 1) * c]
