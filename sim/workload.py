"""Workload generator: job specs (country or world, option dictionary, horizon, numeric
overrides, title), preset grid, swarm profiles. All choices come from the Rng passed in."""

import copy
import csv
import os

from . import core

COUNTRY_VALUES = {
    "scenario": [
        "no_resilient_foods", "all_resilient_foods", "all_resilient_foods_and_more_area",
        "seaweed", "methane_scp", "cellulosic_sugar", "industrial_foods",
        "relocated_crops", "greenhouse",
    ],
    "ratio_stocks_untouched": ["zero", "baseline", "no_stored_between_years", "baseline_no_stored_between_years"],
    "shutoff": [
        "immediate", "one_month_delayed_shutoff", "short_delayed_shutoff", "long_delayed_shutoff",
        "continued", "continued_after_10_percent_fed", "long_delayed_shutoff_after_10_percent_fed",
    ],
    "waste": ["zero", "baseline_in_country", "doubled_prices_in_country", "tripled_prices_in_country"],
    "nutrition": ["baseline", "catastrophe"],
    "intake_constraints": ["enabled", "disabled_for_humans"],
    "meat_strategy": ["reduce_breeding", "baseline_breeding", "feed_only_ruminants"],
    "cull": ["do_eat_culled", "dont_eat_culled"],
    "stored_food": ["baseline", "zero"],
    "crop_disruption": ["zero", "country_nuclear_winter", "all_crops_die_instantly"],
    "grasses": ["baseline", "country_nuclear_winter", "all_crops_die_instantly"],
    "fish": ["baseline", "nuclear_winter", "zero"],
    "seasonality": ["country", "no_seasonality"],
    "fat": ["not_required"],
    "protein": ["not_required"],
    "scale": ["country"],
}

GLOBAL_VALUES = dict(COUNTRY_VALUES)
GLOBAL_VALUES.update(
    {
        "waste": ["zero", "baseline_globally", "doubled_prices_globally", "tripled_prices_globally"],
        "crop_disruption": ["zero", "global_nuclear_winter", "all_crops_die_instantly"],
        "grasses": ["baseline", "global_nuclear_winter"],
        "seasonality": ["baseline_globally", "nuclear_winter_globally", "no_seasonality"],
        "scale": ["global"],
    }
)

FAMILIES = [
    "scale", "scenario", "seasonality", "grasses", "crop_disruption", "fish", "waste", "nutrition",
    "intake_constraints", "stored_food", "ratio_stocks_untouched", "shutoff", "cull", "fat", "protein",
    "meat_strategy",
]

HORIZONS = [48, 60, 72, 84, 96, 108, 120]

# countries the code special-cases, plus small / extreme ones (biased sampling)
SPECIAL = [
    "IND", "SWT", "NZL", "SLV", "ALB", "ECU", "EST", "LUX", "CYP", "GUY", "DJI", "LSO", "BRB", "MLT",
    "SGP", "BHR", "QAT", "ISL", "USA", "CHN", "BRA", "ARG", "DEU", "ETH", "NGA", "JPN", "MNG", "KWT",
]

_CACHE = {}


def table_rows():
    if "rows" not in _CACHE:
        path = os.path.join(core.REPO_DIR, "data", "no_food_trade", "computer_readable_combined.csv")
        with open(path) as f:
            _CACHE["rows"] = list(csv.DictReader(f))
    return _CACHE["rows"]


def country_codes():
    return [r["iso3"] for r in table_rows()]


def row_of(iso3):
    for r in table_rows():
        if r["iso3"] == iso3:
            return r
    raise KeyError(iso3)


def head_row(iso3):
    """Row of the FAOSTAT head-count table for a country: {<species>_head: value}."""
    if "heads" not in _CACHE:
        path = os.path.join(core.REPO_DIR, "data", "no_food_trade", "animal_feed_data", "FAOSTAT_head_and_slaughter.csv")
        with open(path) as f:
            _CACHE["heads"] = {r["iso3"]: r for r in csv.DictReader(f)}
    r = _CACHE["heads"].get("SWZ" if iso3 == "SWT" else iso3, {})
    out = {}
    for k, v in r.items():
        if k.endswith("_head"):
            try:
                out[k] = float(v)
            except (TypeError, ValueError):
                pass
    return out


def pick_country(rng, bias=0.35):
    codes = country_codes()
    if rng.chance(bias):
        sp = [c for c in SPECIAL if c in codes]
        return rng.pick(sp)
    return rng.pick(codes)


# --------------------------------------------------------------------------- presets
def yaml_presets():
    """The scenarios of the three shipped YAML files: list of (name, countries, options)."""
    import yaml

    out = []
    d = os.path.join(core.REPO_DIR, "scenarios")
    for fn in sorted(os.listdir(d)):
        if not fn.endswith(".yaml"):
            continue
        with open(os.path.join(d, fn)) as f:
            cfg = yaml.load(f, Loader=yaml.FullLoader)
        countries = cfg["settings"].get("countries", [])
        if isinstance(countries, str):
            countries = [countries]
        for name, sim in cfg["simulations"].items():
            o = dict(sim)
            o["NMONTHS"] = cfg["settings"]["NMONTHS"]
            out.append(("%s:%s" % (fn[:-5], name), list(countries), o))
    return out


def _ms_country_base():
    return {
        "scale": "country", "NMONTHS": 120, "intake_constraints": "enabled", "nutrition": "catastrophe",
        "fat": "not_required", "protein": "not_required", "crop_disruption": "country_nuclear_winter",
        "grasses": "country_nuclear_winter", "fish": "nuclear_winter", "stored_food": "baseline",
        "seasonality": "country", "cull": "do_eat_culled",
    }


def manuscript_country_presets():
    """plot_manuscript_figures.py, figure 1 (10 presets) and figure 2 (2 presets), with the
    stock-regime key the dispatcher accepts (ratio_stocks_untouched)."""
    out = []
    b = _ms_country_base()
    s = dict(b, scenario="no_resilient_foods", waste="baseline_in_country",
             shutoff="continued_after_10_percent_fed", meat_strategy="baseline_breeding",
             ratio_stocks_untouched="no_stored_between_years")
    out.append(("ms1:no_adaptations", dict(s)))
    s.update(waste="tripled_prices_in_country", shutoff="long_delayed_shutoff_after_10_percent_fed")
    out.append(("ms1:simple_adaptations", dict(s)))
    s.update(ratio_stocks_untouched="zero")
    out.append(("ms1:simple_adaptations_rationing", dict(s)))
    s.update(meat_strategy="feed_only_ruminants", shutoff="long_delayed_shutoff")
    out.append(("ms1:example_scenario", dict(s)))
    for sc in ["all_resilient_foods", "seaweed", "methane_scp", "cellulosic_sugar", "relocated_crops", "greenhouse"]:
        s.update(scenario=sc)
        out.append(("ms1:example+" + sc, dict(s)))
    s2 = dict(b, scenario="no_resilient_foods", ratio_stocks_untouched="zero",
              waste="tripled_prices_in_country", shutoff="long_delayed_shutoff",
              meat_strategy="feed_only_ruminants", buffer="zero")
    out.append(("ms2:no_resilient", dict(s2)))
    s2.update(scenario="all_resilient_foods")
    out.append(("ms2:all_resilient", dict(s2)))
    return out


def manuscript_world_presets():
    out = []
    s = {
        "NMONTHS": 120, "crop_disruption": "global_nuclear_winter", "grasses": "global_nuclear_winter",
        "fish": "nuclear_winter", "seasonality": "nuclear_winter_globally", "scale": "global",
        "stored_food": "baseline", "nutrition": "catastrophe", "fat": "not_required",
        "protein": "not_required", "intake_constraints": "enabled", "scenario": "no_resilient_foods",
        "ratio_stocks_untouched": "no_stored_between_years", "cull": "do_eat_culled",
        "meat_strategy": "baseline_breeding", "waste": "baseline_globally",
        "shutoff": "continued_after_10_percent_fed",
    }
    out.append(("ms3:no_adaptations", dict(s)))
    s.update(waste="tripled_prices_globally", shutoff="long_delayed_shutoff_after_10_percent_fed")
    out.append(("ms3:simple_adaptations", dict(s)))
    s.update(ratio_stocks_untouched="zero", meat_strategy="feed_only_ruminants", shutoff="long_delayed_shutoff")
    out.append(("ms3:example_scenario", dict(s)))
    s.update(scenario="all_resilient_foods")
    out.append(("ms3:resilient_foods", dict(s)))
    s1 = {
        "NMONTHS": 120, "scale": "global", "crop_disruption": "zero", "grasses": "baseline",
        "fish": "baseline", "stored_food": "baseline", "nutrition": "baseline", "fat": "not_required",
        "protein": "not_required", "intake_constraints": "enabled", "scenario": "no_resilient_foods",
        "ratio_stocks_untouched": "baseline", "seasonality": "baseline_globally", "cull": "do_eat_culled",
        "meat_strategy": "baseline_breeding", "waste": "baseline_globally", "shutoff": "continued",
    }
    out.append(("mss1:baseline", dict(s1)))
    return out


def country_presets():
    """All presets applicable to any country: the YAML scenarios (run, as shipped, for their
    own countries, and here for every country) + manuscript country presets."""
    out = [(n, o) for n, _c, o in yaml_presets()]
    out += manuscript_country_presets()
    return out


def single_option_variations(base_name, base):
    table = GLOBAL_VALUES if base.get("scale") == "global" else COUNTRY_VALUES
    out = []
    for fam in FAMILIES:
        if fam in ("scale", "fat", "protein"):
            continue
        for v in table[fam]:
            if base.get(fam) == v:
                continue
            o = dict(base)
            o[fam] = v
            out.append(("%s~%s=%s" % (base_name, fam, v), o))
    return out


# --------------------------------------------------------------------------- random jobs
def random_options(rng, scale="country", horizon=None, profile=None):
    """profile: optional dict family -> fixed value or list of allowed values (swarm)."""
    table = GLOBAL_VALUES if scale == "global" else COUNTRY_VALUES
    o = {}
    for fam in FAMILIES:
        vals = table[fam]
        if profile and fam in profile:
            p = profile[fam]
            vals = p if isinstance(p, list) else [p]
        o[fam] = rng.pick(vals)
    o["NMONTHS"] = horizon or rng.pick(HORIZONS)
    return o


def random_overrides(rng, o, iso3, p=0.35):
    """Documented numeric overrides; each with probability p."""
    if rng.chance(p):
        o["MINIMUM_PERCENT_FED_BEFORE_NONHUMAN_CONSUMPTION_ALLOWED"] = rng.pick(
            [0, 5, 10, 25, 50, 75, 90, 100, round(rng.uniform(0, 100), 2)]
        )
    if rng.chance(p / 2):
        o["RATIO_STOCKS_UNTOUCHED"] = rng.pick([0, 0.25, 0.5, 1, round(rng.random(), 3)])
    if rng.chance(p / 2):
        o["CROP_PRODUCTION_MULTIPLIER"] = rng.pick([0.5, 1, 1.5, 2, round(rng.uniform(0.1, 3), 2)])
    if rng.chance(p / 2):
        o["GRASSES_PRODUCTION_MULTIPLIER"] = rng.pick([0, 0.5, 1, 2, round(rng.uniform(0, 3), 2)])
    if rng.chance(p / 3):
        o["kg_meat_per_large_animal"] = rng.pick([150, 200, 269.7, 350])
    if iso3 != "WOR" and rng.chance(p / 3):
        # documented starting head-count override of one species (value = table value scaled)
        heads = head_row(iso3)
        present = [k for k, v in heads.items() if v > 0 and k not in ("meat_cattle_head",) or (k == "meat_cattle_head" and v > 0 and iso3 != "IND")]
        if present:
            k = rng.pick(sorted(present))
            o[k] = int(heads[k] * rng.pick([0.5, 0.8, 0.97, 1.03, 1.25, 2.0]))
    return o


def swarm_profile(rng):
    """Fix a random subset of families for a whole history so that histories differ in kind."""
    prof = {}
    for fam in ["scenario", "ratio_stocks_untouched", "shutoff", "meat_strategy", "cull", "stored_food",
                "crop_disruption", "waste", "intake_constraints"]:
        if rng.chance(0.3):
            vals = COUNTRY_VALUES[fam]
            k = 1 + rng.randrange(min(2, len(vals)))
            prof[fam] = rng.sample(vals, k)
    return prof


def random_job(rng, profile=None, world_p=0.06, overrides_p=0.35, horizon=None):
    if rng.chance(world_p):
        prof = None
        if profile:
            prof = {k: v for k, v in profile.items() if k not in ("waste", "crop_disruption", "grasses", "seasonality")}
        o = random_options(rng, "global", horizon, prof)
        random_overrides(rng, o, "WOR", overrides_p * 0.5)
        o.pop("kg_meat_per_large_animal", None)
        return {"iso3": "WOR", "options": o, "title": "w%d" % rng.randrange(3)}
    iso3 = pick_country(rng)
    o = random_options(rng, "country", horizon, profile)
    random_overrides(rng, o, iso3, overrides_p)
    return {"iso3": iso3, "options": o, "title": "t%d" % rng.randrange(3)}


def job_digest(job):
    return core.digest(job)


def clone(job):
    return copy.deepcopy(job)
