"""C01 - reported allocations never use food that does not exist."""

from .. import core, monitors, pcheck, world

ID = "C01"
LEVEL = "exploration"
MAIN_CLAUSES = ["non_negative", "stored_food_ledger", "crops_ledger", "meat_ledger", "exhausted_at_end",
                "charge_equals_total", "animal_round_ceiling", "animal_round_monotone"]
RULE = (
    "history = 2-3 seeded jobs in one process, solver = real CBC or a seeded random vertex of the optimal face (HiGHS), "
    "fail-stop solver faults; a case = one solved LP (round) whose allocation is audited against an independent "
    "monthly ledger built from the supplies only; non-trivial = solved to optimality with >=1 modelled food in "
    "positive supply; distinct = distinct (job digest, round, solver mode, vertex seed)"
)
ASSUMPTIONS = [
    "row-scaled tolerance 1e-6*(1+sum|terms|) (CBC primal tolerance 1e-7 with one order of head-room); seaweed ledger 1e-5",
    "a job that raises (repo's own assertion, e.g. under an alternative vertex or a solver fault) yields no verdict",
    "alternative vertices come from HiGHS, a stand-in for CBC: legal answers CBC might never produce",
]
COMPONENTS = pcheck.components()
TIERS = {
    "quick": {"histories": 512, "budget_s": 120, "timeout": 300},
    "thorough": {"histories": 6400, "budget_s": 1500, "timeout": 400},
}


def prepare():
    world.setup_repo()


def generate(seed, h, tier):
    return pcheck.generate(seed, ID, h, tier, vertex_p=0.5, fault_p=0.2)


def _nontrivial(t, spec, i):
    out = []
    for rec in t.rounds:
        if rec.get("status") == 1 and "vars" in rec:
            x = rec["vars"]
            if any(v is True for k, v in x.items() if k.startswith("_modelled_")):
                out.append(core.digest([spec["jobs"][i], rec["index"], spec.get("solver"), spec["h"] if spec.get("solver") == "vertex" else 0]))
    return out


def execute(spec):
    return pcheck.execute(spec, ID, monitors.c01, _nontrivial)


shrink = pcheck.shrink
