"""C13 - scenario options mean what they say and are applied exactly once (engine O).

The option dictionary is a bag of messages to the Scenarios node. Workload: valid option
dictionaries (documented value tables + numeric overrides) for country rows (from
DataFrame.iterrows()) and the world. Message faults: drop a family, unknown value, unknown
extra key, permuted key order, duplicate (a direct second setter call of the same family on
the same Scenarios object; all ordered pairs, and pairs across families), the same caller
dictionary object used for two countries. Oracle: sim/engine_o.py reference table
(family -> value -> exact constants) written from scenarios/README.md and the setter docstrings.
The single-fault space is finite; the thorough tier enumerates it.
"""

from .. import core, engine_o, world

ID = "C13"
LEVEL = "fault_enumeration"
MAIN_CLAUSES = [
    "value_sets_documented_constants", "invalid_rejected", "missing_rejected", "duplicate_rejected",
    "caller_dict_unmodified", "override_changes_exactly_its_target",
]
RULE = (
    "case = one operation on the real option dispatcher / Scenarios setters / herd-table override: "
    "(family, value[, permuted]) dispatch compared with the full reference constants; (family dropped); (family, unknown "
    "value); ordered setter pair on one Scenarios object (within a family: 2nd must be rejected with nothing changed; across "
    "families: 2nd accepted, diff = exactly its documented set); every setter again on the loader the dispatcher returns; "
    "one dictionary object for two countries (also through run_model_no_trade / run_many_options); numeric override vs the "
    "same dictionary without it; <species>_head override vs the row AnimalModelBuilder.create_animal_objects receives. "
    "distinct = distinct (kind, scale, family, value, fault kind) / ordered setter pair / (country, species). thorough = the "
    "whole single-fault space: every family x value x every country and the world, every missing family, every ordered pair "
    "within a family, every cross-family pair, every species x every country"
)
ASSUMPTIONS = [
    "supported value = listed in workload.COUNTRY_VALUES/GLOBAL_VALUES (accepted by the dispatcher) or documented in scenarios/README.md",
    "the initial constants of a scale are the baseline (taken from a separate fresh Scenarios object); for scale=country they are "
    "compared with the documented column->constant mapping, for scale=global only pinned scalars are compared",
    "README lists fat/protein 'required'; the code disables them with a message and sys.exit: treated as a clean rejection, counted",
    "unknown extra keys, out-of-range overrides and scale-mismatched values are outside the statement: counted in probes, not alarmed",
    "the documented SLV/ALB/ECU rewrite (alter_scenario_if_known_to_fail, prints a WARNING) is part of the reference; applications counted",
    "any exception raised before run_and_analyze_scenario is entered counts as a rejection (type recorded in probes)",
    "scenario building blocks without an exactly-once flag (seaweed(), greenhouse(), ...) are counted, not alarmed "
    "(engine_o.FLAG_UNGUARDED_HELPERS)",
    "floats compared at 1e-12 relative",
]
COMPONENTS = {
    "real": ["ScenarioRunner.set_depending_on_option", "alter_scenario_if_known_to_fail", "every Scenarios setter / init / check_all_set",
             "ScenarioRunnerNoTrade.apply_custom_parameters / verify_country_data / run_optimizer_for_country / run_model_no_trade / "
             "run_many_options / run_model_defaults_no_trade", "run_scenarios_from_yaml", "CalculateFeedAndMeat -> animal_populations.main up to create_animal_objects",
             "herd table readers, country table (pandas)"],
    "simulated": ["message faults on the option dictionary (drop, unknown value, extra key, permutation, duplicate setter call, shared dictionary)",
                  "transient failure of the node downstream of the dispatcher (stubbed run_and_analyze_scenario raises "
                  "PulpSolverError / AssertionError once), followed by a clean message for the same country"],
    "stub": ["ScenarioRunner.run_and_analyze_scenario (records its arguments, returns; no LP)",
             "AnimalModelBuilder.create_animal_objects (captures the head-count row, stops the herd run)",
             "Parameters.compute_parameters_first_round (guard: must never be reached)"],
}
TIERS = {
    "quick": {"histories": 1, "budget_s": 55, "timeout": 120, "shrink_s": 60},
    "thorough": {"histories": 1, "budget_s": 560, "timeout": 300, "shrink_s": 120, "exhaustive": True},
}
SHRINK_EACH_IDENTITY = True  # one replay per violation identity class, each shrunk to its own single operation
_SEEDS = {}


def prepare():
    world.setup_repo()
    engine_o.load_tables()
    # histories = plan length / chunk; the plan length does not depend on the seed
    for tier in TIERS:
        TIERS[tier]["histories"] = engine_o.n_histories(0, tier)


def generate(seed, h, tier):
    _SEEDS[tier] = seed
    return {"h": h, "tier": tier, "ops": engine_o.history_ops(seed, h, tier)}


def execute(spec):
    return engine_o.execute_ops(spec)


def shrink(spec):
    ops = spec["ops"]
    n = len(ops)
    if n <= 1:
        return
    k = min(n, 32)
    size = (n + k - 1) // k
    for i in range(0, n, size):
        yield {"h": spec["h"], "tier": spec.get("tier"), "ops": ops[i:i + size]}


def finish(agg):
    for tier, cfg in TIERS.items():
        if cfg.get("exhaustive") and tier in _SEEDS and agg["histories"] < cfg["histories"]:
            raise core.HarnessError("exhaustive tier incomplete: %d of %d histories ran" % (agg["histories"], cfg["histories"]))
    return []
