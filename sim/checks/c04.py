"""C04 - headline, monthly breakdown and saved tables agree."""

from .. import core, monitors, pcheck, world

ID = "C04"
LEVEL = "exploration"
MAIN_CLAUSES = ["contribution_equals_allocation", "crop_split_adds_up", "headline_is_min_of_sum", "headline_vs_optimum",
                "csv_equals_result", "csv_last_writer"]
RULE = (
    "history = 2-3 seeded jobs (country/world, random documented options, horizon 48..120, overrides) in one process, "
    "cbc or seeded random-optimal-vertex solver, result-write / clock / solver faults; a case = one LP round of one "
    "job whose returned Interpreter, raw variable values and saved CSV are cross-checked; non-trivial = a CSV was "
    "written and >=3 food series are non-zero; distinct = distinct (job digest, round, solver mode, history)"
)
ASSUMPTIONS = [
    "'within 0.01 %' read relatively: optimum*(1-1e-4) <= headline <= optimum*(1+5e-5)",
    "CSV compared exactly after parsing with float_precision='round_trip'",
    "file-name collisions are counted, not alarmed: the property promises contents, the last writer of a path wins",
    "under an injected write fault the job must raise; all other jobs of the history stay strict",
]
COMPONENTS = pcheck.components()
TIERS = {
    "quick": {"histories": 512, "budget_s": 100, "timeout": 300},
    "thorough": {"histories": 6400, "budget_s": 1500, "timeout": 400},
}


def prepare():
    world.setup_repo()


def generate(seed, h, tier):
    s = pcheck.generate(seed, ID, h, tier, fault_seams=("write", "write", "clock", "solve"), fault_p=0.35)
    rng = core.Rng(seed, ID, h, "titles")
    for j in s["jobs"]:
        r = rng.random()
        if r < 0.35:
            j["title"] = "shared"
        elif r < 0.5:
            j["title"] = "Untitled"  # timestamped file names (six separate clock reads)
        elif r < 0.6:
            j["title"] = 'we/ird:*"<>|\nname'
    return s


def _nontrivial(t, spec, i):
    out = []
    for rec in t.rounds:
        ip = rec.get("interp")
        if ip is None or rec.get("csv_path") is None:
            continue
        nz = sum(1 for c, _ in __import__("sim.engine_p", fromlist=["CSV_COLS"]).CSV_COLS if ip[c].any())
        if nz >= 3:
            out.append(core.digest([spec["jobs"][i], rec["index"], spec.get("solver"), spec["h"] if spec.get("solver") == "vertex" else 0]))
    return out


def execute(spec):
    return pcheck.execute(spec, ID, monitors.c04, _nontrivial, end_of_history=monitors.c04_end_of_history)


shrink = pcheck.shrink
