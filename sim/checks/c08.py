"""C08 - supply series follow the calendar, the disruption schedule and the configured delays.

Engine P0 (real code up to compute_parameters_first_round, no LP). Workload-driven: the
simulator contributes the configuration swarm and the randomised model-time timers; nobody
should read this check as evidence about schedules or faults.

Oracle = a reference calendar / timer model written from the property statement and the
documentation (docstrings, comments, shipped tests) - it never calls a food_system class:

  month 0 = May          -> calendar month of model month m is (m + 4) mod 12 (0 = January)
  model years            -> year 1 = months 0..7 (May-December), year y >= 2 starts in January =
                            month 8 + 12 (y - 2); ten years of disruption data exist, so year 10 is
                            extended over whatever follows ("last year 12 + 4" at 120 months)

Series with a full independent reference: outdoor crops, greenhouse crops, fish, grass,
feed demand, biofuel demand, seaweed built area, seaweed growth factors, initial stored food.
Series with structural clauses only (the ramp tables exist nowhere but in the code): methane
SCP and cellulosic sugar - N values, finite, >= 0, zero during the delay, monotone, levels are
tabulated percentages of global needs x country share x (1 - waste), constant once the cap is
reached, and the table-free metamorphic clauses (delay shift, exact scaling).

C08 does not decide the land-accounting clause of C09: for jobs with greenhouses the outdoor
series may or may not carry the (1 - greenhouse fraction) factor (one choice for the whole
series); that factor is C09's business.
"""

import numpy as np

from .. import core, engine_p0, workload, world

ID = "C08"
LEVEL = "exploration"
MAIN_CLAUSES = ["prepared_inputs_unchanged", "shape", "reference", "ramp_structure", "delay_shift", "scaling", "scaling_others_unchanged",
                "calendar_onehot", "year_block_step", "rounds_keep_supplies"]
P_SLICE_EVERY = 8  # every 8th history is an engine-P history (full three-round runs) for the rounds clause
RULE = (
    "history = 12-16 engine-P0 jobs in one process: 5 seeded base jobs (country/world, every documented option family, "
    "horizon 48..120 step 12, numeric overrides, randomised DELAY timers), 3 scaling twins of a base job (one baseline "
    "column x factor through the documented option-key override), 2 delay pairs (same job, one start-up delay k months "
    "later), 3 synthetic calendar probes (one-hot seasonality; one disrupted model year for crops and for grass); a "
    "case = one job whose 11 supply series are compared with the reference calendar/timer model; non-trivial = the job "
    "completed and at least one supply family is switched on (non-zero series); distinct = distinct (row digest, option "
    "vector, horizon, timers)"
)
ASSUMPTIONS = [
    "inputs of the documented function = constants_for_params / time_consts_for_params as produced by the real option "
    "dispatcher (plus the seeded timers); the row->constant mapping itself is exercised only by the scaling clause",
    "seaweed growth factors: the code hands a 120-entry table indexed by month; 'one value per simulated month' is "
    "read as: at least NMONTHS entries, the first NMONTHS finite and >= 0 (longer tables are counted, not alarmed)",
    "initial stored food is a stock (one number); N zeros are accepted when stored food is switched off; its "
    "reference is a difference of two large terms, so the 1e-12 tolerance is taken relative to the larger term",
    "grass baseline unit: a monthly figure above 20 000 (the cap verify_country_data puts on the annual megatonnes) is "
    "read as tons (the documented unit of the world constant), otherwise as megatonnes (the documented unit of the rows)",
    "methane SCP / cellulosic sugar: ramp tables are not documented outside the code -> structural + metamorphic clauses",
    "outdoor crops with greenhouses: either with or without the (1 - greenhouse fraction) factor (C09 decides that)",
    "seed share (92/3898), greenhouse yield model (mean monthly yield x relocation exponent x gain) and the "
    "harvest-before-May rule follow the code's own docstrings; the calendar alignment is derived independently and "
    "cross-checked by the one-hot / step probes",
    "tolerance 1e-12 relative (operation order only); 'must not change' is bit-exact",
    "clause 'randomly generated seasonality vectors / baselines via the food_system classes called directly' is "
    "not applicable to this technique and not covered (DESIGN.md 6)",
]
COMPONENTS = engine_p0.components()
TIERS = {
    "quick": {"histories": 256, "budget_s": 60, "timeout": 240, "batch": 64, "shrink_s": 20},
    "thorough": {"histories": 4800, "budget_s": 780, "timeout": 300, "batch": 320, "shrink_s": 45},
}
SHRINK_EACH_IDENTITY = True  # one minimised replay per violation identity
MAX_REPORTS = 12

RTOL = 1e-12
MONTH_NAMES = ["JAN", "FEB", "MAR", "APR", "MAY", "JUN", "JUL", "AUG", "SEP", "OCT", "NOV", "DEC"]
SCP_LEVELS = [0, 2, 4, 7, 9, 11, 13, 15]  # percent of global needs, before the 12 % plant-downtime gross-up
CS_LEVELS = [0, 4.7, 9.5]


def prepare():
    world.setup_repo()
    engine_p0.country_rows()


# =========================================================================== calendar
def calendar_month(m):
    """0 = January. The simulation starts in May."""
    return (m + 4) % 12


def model_year(m):
    """1-based model year of model month m; year 1 is May-December (8 months)."""
    return 1 if m < 8 else 2 + (m - 8) // 12


def data_year(m, last=10):
    """Year whose disruption ratio applies: ten years of data, the last one is extended."""
    return min(model_year(m), last)


def year_block(y, n, last=10):
    """Model months belonging to data year y within a horizon of n months."""
    return [m for m in range(n) if data_year(m, last) == y]


# =========================================================================== reference model
def year1_ratio(r1, seasonality, iso3):
    """Docstring of get_year_1_ratio_using_fraction_harvest_before_may: the year-1 figure is
    a whole-year ratio; the January-April harvest happened before the event, so the ratio of
    May-December yields is (r1 - before_may) / (1 - before_may); if less than a quarter of the
    harvest falls after May there is no information and yields are taken as unchanged."""
    if iso3 == "ZAF":
        before = 1
    elif iso3 in ("JPN", "PRK", "KOR"):
        before = 0
    else:
        before = sum(seasonality[:4])
    left = r1 - before
    if left <= 0:
        return 0.0
    after = 1 - before
    if after < 0.25:
        return 1.0
    return left / after


def crop_ratios(ci, n):
    out = np.zeros(n)
    y1 = year1_ratio(ci["RATIO_CROPS_YEAR1"], ci["SEASONALITY"], ci["COUNTRY_CODE"])
    for m in range(n):
        y = data_year(m)
        r = y1 if y == 1 else ci["RATIO_CROPS_YEAR%d" % y]
        if r <= 0:
            r = round(r, 8)
        out[m] = r
    return out


def greenhouse_fraction(ci, n):
    """Share of cropland under greenhouses: nothing during the configured delay and the five
    months from planting to harvest, then constant expansion for 36 months up to the configured
    share (comments in get_greenhouse_area and Greenhouses.__init__)."""
    f = np.zeros(n)
    if not ci["ADD_GREENHOUSES"] or ci["INITIAL_GLOBAL_CROP_AREA"] * ci["INITIAL_CROP_AREA_FRACTION"] == 0:
        return f
    start = ci["DELAY"]["GREENHOUSE_MONTHS"] + 5
    share = ci["GREENHOUSE_AREA_MULTIPLIER"]
    for m in range(n):
        if m >= start:
            f[m] = share * min(1.0, (m - start) / 36.0)
    return f


def reference(ci, tci):
    """Every supply series as the documented function of the inputs. Returns name -> array
    (plus the intermediate crop quantities C09 uses)."""
    n = ci["NMONTHS"]
    ref = {}
    wd = ci["WASTE_DISTRIBUTION"]
    retail = ci["WASTE_RETAIL"]
    months = np.arange(n)

    # ---- outdoor crops
    if ci["ADD_OUTDOOR_GROWING"] or ci["ADD_GREENHOUSES"]:
        annual = ci["BASELINE_CROP_KCALS"] * (1 - (100 * (92 / 3898)) / 100) * 4e6 / 1e9  # billion kcals a year, less seed
        season = np.array([ci["SEASONALITY"][calendar_month(m)] for m in range(n)], dtype=float)
        month_kcals = season * annual
        ratio = crop_ratios(ci, n)
        if (ratio < 0).any():
            return None  # the code refuses negative ratios (assertion): no verdict
        relocation = bool(ci["OG_USE_BETTER_ROTATION"])
        exponent = ci["ROTATION_IMPROVEMENTS"]["POWER_LAW_IMPROVEMENT"] if relocation else 1
        improved = np.where(ratio > 1, ratio, np.power(ratio, exponent))
        grown_plain = month_kcals * ratio
        grown_relocated = month_kcals * improved
        if ci["RATIO_INCREASED_CROP_AREA"] > 1:
            h0 = ci["INITIAL_HARVEST_DURATION_IN_MONTHS"]
            full = ci["NUMBER_YEARS_TAKES_TO_REACH_INCREASED_AREA"] * 12
            top = ci["RATIO_INCREASED_CROP_AREA"]
            ramp = np.ones(n)
            for m in range(n):
                if m >= full:
                    ramp[m] = top
                elif m >= h0:
                    ramp[m] = 1 + (m - h0) * (top - 1) / (full - h0)
            grown_relocated = grown_relocated * ramp
        if relocation:
            change = ci["INITIAL_HARVEST_DURATION_IN_MONTHS"] + ci["DELAY"]["ROTATION_CHANGE_IN_MONTHS"]
            grown = np.where(months >= change, grown_relocated, grown_plain)
        else:
            grown = grown_plain
        ref["_grown"] = grown
        ref["_grown_plain"] = grown_plain
        ref["_ratio"] = ratio
        ref["_improved"] = improved
        ref["_mean_month_kcals"] = float(np.mean([s * annual for s in ci["SEASONALITY"]]))
    else:
        grown = np.zeros(n)
        ref["_grown"] = grown
    gh = greenhouse_fraction(ci, n)
    ref["_gh_fraction"] = gh
    keep = 1 - wd["CROPS"] / 100
    if ci["ADD_OUTDOOR_GROWING"]:
        ref["outdoor_crops"] = grown * keep
        ref["_outdoor_crops_with_land"] = grown * (1 - gh) * keep
    else:
        ref["outdoor_crops"] = np.zeros(n)
        ref["_outdoor_crops_with_land"] = np.zeros(n)

    # ---- greenhouse crops: area share x mean monthly yield of the cropland it replaces x the
    # disruption ratio (relocation exponent applies when crops are relocated) x gain, both wastes
    if ci["ADD_GREENHOUSES"] and gh.any():
        ref["greenhouse_crops"] = (ref["_mean_month_kcals"] * ref["_improved"] * gh * keep * (1 - retail / 100)
                                   * (1 + ci["GREENHOUSE_GAIN_PCT"] / 100))
    else:
        ref["greenhouse_crops"] = np.zeros(n)

    # ---- fish: annual / 12 x monthly percent x both wastes
    pct = np.array(tci["FISH_PERCENT_MONTHLY"], dtype=float)[:n]
    fish_month = ci["FISH_DRY_CALORIC_ANNUAL"] * 4e6 / 1e9 / 12 * (1 - wd["SEAFOOD"] / 100) * (1 - retail / 100)
    ref["fish"] = pct / 100 * fish_month if ci["ADD_FISH"] else np.zeros(len(pct))

    # ---- grass (human-inedible feed): monthly baseline x ratio of the model year.
    # documented units: country rows carry megatonnes a year (verify_country_data: "grass is in megatonnes",
    # at most 20 000 a year); the world constant is documented as "tons dry caloric monthly" (4206e6 / 12).
    # A monthly figure above 20 000 cannot be megatonnes, so it is read as tons. 1 dry caloric ton = 4e6 kcal.
    per_unit = 4e6 / 1e9 if ci["HUMAN_INEDIBLE_FEED_BASELINE_MONTHLY"] > 20000 else 1e6 * 4e6 / 1e9
    base = ci["HUMAN_INEDIBLE_FEED_BASELINE_MONTHLY"] * per_unit
    ref["grass"] = np.array([ci["RATIO_GRASSES_YEAR%d" % data_year(m)] * base for m in range(n)], dtype=float)
    # the same with the code's block rule (last simulated year takes the 4 left-over months), for attribution only
    ny = n // 12
    blocks = [8] + [12] * max(0, ny - 2) + [16]
    yr = [y + 1 for y, k in enumerate(blocks) for _ in range(k)][:n]
    ref["_grass_last_year_extended"] = np.array([ci["RATIO_GRASSES_YEAR%d" % min(y, 10)] * base for y in yr], dtype=float)

    # ---- feed / biofuel demand: constant until the shut-off month, then nothing
    for name, key, timer in (("feed_demand", "FEED_KCALS", "FEED_SHUTOFF_MONTHS"),
                             ("biofuels_demand", "BIOFUEL_KCALS", "BIOFUEL_SHUTOFF_MONTHS")):
        level = ci[key] / 12 * 4e6 / 1e9
        ref[name] = np.where(months < ci["DELAY"][timer], level, 0.0)

    # ---- seaweed farm area: initial area during the delay, then constant building, capped
    initial = 0.1 * ci["INITIAL_BUILT_SEAWEED_FRACTION"]
    cap = 1853 * ci["SEAWEED_MAX_AREA_FRACTION"]
    if ci["ADD_SEAWEED"]:
        per_month = 2.0765 * 30 * ci["SEAWEED_NEW_AREA_FRACTION"]
        area = initial + np.maximum(0, months - ci["DELAY"]["SEAWEED_MONTHS"]) * per_month
    else:
        area = np.full(n, initial)
    ref["seaweed_built_area"] = np.minimum(area, cap)

    # ---- seaweed growth: percent of the standing crop left after a month of daily growth
    table = ci["SEAWEED_GROWTH_PER_DAY"]
    keys = sorted(table, key=int)
    ref["seaweed_growth"] = np.array([100 * (1 + table[k] / 100) ** 30 for k in keys], dtype=float)

    # ---- initial stored food: previous month's end-of-month stock x share used - untouched share x annual minimum
    keep_sf = 4e6 / 1e9 * keep
    if ci["ADD_STORED_FOOD"]:
        stocks = ci["END_OF_MONTH_STOCKS"]
        start_of_may = stocks["APR"]  # end of the month before the simulation starts
        used = start_of_may * (ci["PERCENT_STORED_FOOD_TO_USE"] / 100)
        untouched = min(stocks[k] for k in MONTH_NAMES) * ci["RATIO_STOCKS_UNTOUCHED"]
        ref["stored_food"] = np.array([(used - untouched) * keep_sf])
        ref["_stored_food_terms"] = max(abs(used), abs(untouched)) * keep_sf  # scale of the two terms (cancellation)
    else:
        ref["stored_food"] = np.zeros(1)
        ref["_stored_food_terms"] = 0.0
    return ref


def industrial_unit(ci, which):
    """Billion kcals a month per tabulated percent of global needs."""
    frac = ci["SCP_GLOBAL_PRODUCTION_FRACTION"] if which == "methane_scp" else ci["CS_GLOBAL_PRODUCTION_FRACTION"]
    needs = ci["GLOBAL_POP"] * ci["NUTRITION"]["KCALS_DAILY"] * 30 / 1e9
    return (needs / 100 / (1 - 0.12) * ci["INDUSTRIAL_FOODS_SLOPE_MULTIPLIER"] * frac
            * (1 - ci["WASTE_DISTRIBUTION"]["SUGAR"] / 100))


# =========================================================================== comparison helpers
def close(a, b, rtol=RTOL):
    a, b = np.asarray(a, float), np.asarray(b, float)
    if a.shape != b.shape:
        return False
    return bool(np.all(np.abs(a - b) <= rtol * np.maximum(np.abs(a), np.abs(b))))


def worst(a, b):
    a, b = np.asarray(a, float), np.asarray(b, float)
    if a.shape != b.shape or not a.size:
        return None, float("nan")
    rel = np.abs(a - b) / np.maximum(np.maximum(np.abs(a), np.abs(b)), 1e-300)
    i = int(np.argmax(rel))
    return i, float(rel[i])


def on_integer_lattice(x):
    x = np.asarray(x, float)
    return bool(x.size and np.all(np.abs(x - np.round(x)) <= 1e-9 * np.maximum(1.0, np.abs(x))))


def is_truncation_of(series, before_waste, keep):
    """series == floor(before_waste) x keep month by month (what assignment of non-negative floats into an
    integer array does). Robust to values an ulp away from an integer. Callers use it only after the plain
    comparison failed (so the truncation did change something, be it 1e-10 of a billion kcal)."""
    series, x = np.asarray(series, float), np.asarray(before_waste, float)
    if series.shape != x.shape or not keep > 0:
        return False
    q = series / keep
    rq = np.round(q)
    integer = np.abs(q - rq) <= 1e-9 * np.maximum(1.0, np.abs(q))
    floor_of_x = (x - rq > -1e-6) & (x - rq < 1 + 1e-6)
    return bool(integer.all() and floor_of_x.all())


def _ident(r, **kw):
    return dict(kw)


def _scale(r):
    return "global" if r.job["iso3"] == "WOR" else "country"


def _wit(r, **kw):
    d = {"job": r.job.get("tag"), "iso3": r.job["iso3"], "role": r.job.get("role"), "nmonths": r.N,
         "scenario": r.job["options"].get("scenario"), "timers": r.timers_applied}
    d.update(kw)
    return d


# =========================================================================== per-job clauses
def check_job(r, V):
    ci, n = r.inputs, r.N
    ref = reference(ci, r.time_inputs)
    if ref is None:
        return None
    S = r.series
    branch = engine_p0.branch_of(ci)

    # ---- shape: exactly N finite, non-negative values
    for name in engine_p0.SERIES:
        x = S.get(name)
        if x is None:
            V.check("shape", False, _ident(r, series=name, kind="missing"), _wit(r), "series %s was not handed over" % name)
            continue
        if name == "stored_food":
            ok_len = x.size == 1 or (x.size == n and not x.any())
        elif name == "seaweed_growth":
            ok_len = x.size >= n
            x = x[:n]
        else:
            ok_len = x.size == n
        bad = "length" if not ok_len else ("not_finite" if not np.isfinite(x).all() else ("negative" if (x < 0).any() else None))
        V.check("shape", bad is None, _ident(r, series=name, kind=bad),
                lambda: _wit(r, length=int(S[name].size), first_bad=core.jsonable(np.where(~np.isfinite(x) | (x < 0))[0][:3])),
                "%s: %s (expected exactly %d finite values >= 0)" % (name, bad, n))

    # ---- reference: equals the documented function of the inputs
    def cmp(name, got, want, extra_ident=None, alt=None):
        """alt: list of (label, array) explanations tried when the reference does not match."""
        ok = close(got, want)
        i, rel = worst(got, want)
        if ok:
            V.resid("reference:" + name, rel)
            V.ev("reference")
            return True
        kind = "value"
        for label, arr in alt or []:
            if arr is not None and close(got, arr):
                kind = label
                break
        V.check("reference", False, _ident(r, series=name, kind=kind, **(extra_ident or {})),
                lambda: _wit(r, month=i, code=float(np.asarray(got).ravel()[i]) if i is not None else None,
                             reference=float(np.asarray(want).ravel()[i]) if i is not None else None, rel_diff=rel,
                             code_head=core.jsonable(np.asarray(got).ravel()[:14]),
                             reference_head=core.jsonable(np.asarray(want).ravel()[:14])),
                "%s differs from the documented function of the inputs (%s)" % (name, kind))
        return False

    # outdoor crops (land factor is C09's: either reading is accepted, one choice for the series)
    got = S["outdoor_crops"]
    if got.size == n:
        plain, land = ref["outdoor_crops"], ref["_outdoor_crops_with_land"]
        if close(got, plain) or close(got, land):
            V.ev("reference")
            V.resid("reference:outdoor_crops", min(worst(got, plain)[1], worst(got, land)[1]))
        else:
            keep = 1 - ci["WASTE_DISTRIBUTION"]["CROPS"] / 100
            trunc = (is_truncation_of(got, ref["_grown"] * (1 - ref["_gh_fraction"]), keep)
                     or is_truncation_of(got, ref["_grown"], keep))
            cmp("outdoor_crops", got, land if ci["ADD_GREENHOUSES"] and ci["OG_USE_BETTER_ROTATION"] else plain,
                {"branch": branch}, [("integer_truncation", got if trunc else None)])
    if S["greenhouse_crops"].size == n:
        cmp("greenhouse_crops", S["greenhouse_crops"], ref["greenhouse_crops"], {"branch": branch})
    if S["fish"].size == n:
        cmp("fish", S["fish"], ref["fish"])
    if "grass" in S and S["grass"].size == n:
        g = S["grass"]
        horizon = "horizon_below_120" if n < 120 else "horizon_120"
        # two independent aspects: the unit factor and the year-block rule. Find the combination that
        # explains the series and report each deviating aspect under its own identity.
        combos = [(f, lab, arr) for f in (1.0, 1e6) for lab, arr in (("calendar", ref["grass"]), ("extended", ref["_grass_last_year_extended"]))]
        hit = next(((f, lab) for f, lab, arr in combos if close(g, arr * f)), None)
        if hit is None:
            cmp("grass", g, ref["grass"], {"horizon": horizon})
        else:
            f, lab = hit
            V.resid("reference:grass", worst(g, (ref["grass"] if lab == "calendar" else ref["_grass_last_year_extended"]) * f)[1])
            i, rel = worst(g, ref["grass"])
            wit = lambda: _wit(r, month=i, code=float(g[i]), reference=float(ref["grass"][i]), ratio=float(g[i] / ref["grass"][i]) if ref["grass"][i] else None,
                               code_tail=core.jsonable(g[-6:]), reference_tail=core.jsonable(ref["grass"][-6:]))
            V.check("reference", f == 1.0, {"series": "grass", "kind": "unit_factor_1e6", "scale": _scale(r)}, wit,
                    "grass is 1e6 times the documented function of the inputs (the baseline constant is given in tons "
                    "but converted as if it were million tons)")
            V.check("reference", lab == "calendar", {"series": "grass", "kind": "last_simulated_year_extended_instead_of_next_year", "horizon": horizon}, wit,
                    "grass: the last 4 months of the horizon use the ratio of the last simulated year, not of the model year they belong to")
    for name in ("feed_demand", "biofuels_demand", "seaweed_built_area"):
        if S[name].size == n:
            cmp(name, S[name], ref[name])
    if S["seaweed_growth"].size >= n:
        cmp("seaweed_growth", S["seaweed_growth"][:n], ref["seaweed_growth"][:n])
    sf = S["stored_food"]
    got_sf = float(sf.ravel()[0]) if sf.size else float("nan")
    want_sf = float(ref["stored_food"][0])
    tol_sf = RTOL * max(abs(got_sf), abs(want_sf), ref["_stored_food_terms"])
    V.resid("reference:stored_food", abs(got_sf - want_sf) / max(ref["_stored_food_terms"], abs(want_sf), 1e-300))
    V.check("reference", abs(got_sf - want_sf) <= tol_sf, _ident(r, series="stored_food", kind="value"),
            lambda: _wit(r, code=got_sf, reference=want_sf, terms=ref["_stored_food_terms"]),
            "initial stored food differs from previous month's stock x share used - untouched share x annual minimum")

    # ---- ramp structure of the two industrial foods (tables are code-only: structural clauses)
    for name, flag, levels in (("methane_scp", "ADD_METHANE_SCP", SCP_LEVELS), ("cellulosic_sugar", "ADD_CELLULOSIC_SUGAR", CS_LEVELS)):
        x = S[name]
        if x.size != n:
            continue
        if not ci[flag]:
            V.check("ramp_structure", not x.any(), _ident(r, series=name, kind="off_but_nonzero"), _wit(r),
                    "%s is switched off but its series is not zero" % name)
            continue
        delay = ci["DELAY"]["INDUSTRIAL_FOODS_MONTHS"]
        unit = industrial_unit(ci, name)
        V.check("ramp_structure", not x[:delay].any(), _ident(r, series=name, kind="nonzero_during_delay"),
                lambda: _wit(r, delay=delay, head=core.jsonable(x[:delay + 2])), "%s produces during its start-up delay" % name)
        V.check("ramp_structure", bool(np.all(np.diff(x) >= -RTOL * np.abs(x[1:]))), _ident(r, series=name, kind="not_monotone"),
                lambda: _wit(r, month=int(np.argmin(np.diff(x))) + 1), "%s ramp is not monotone" % name)
        if unit > 0:
            lv = x / unit
            dist = np.min(np.abs(lv[:, None] - np.array(levels, float)[None, :]), axis=1)
            V.resid("ramp_levels:" + name, float(dist.max()))
            V.check("ramp_structure", bool(dist.max() <= 1e-9), _ident(r, series=name, kind="level_not_tabulated"),
                    lambda: _wit(r, month=int(np.argmax(dist)), percent_of_global_needs=float(lv[int(np.argmax(dist))])),
                    "%s level is not a tabulated percentage of global needs x share x (1 - waste)" % name)
            at_cap = np.where(np.abs(lv - levels[-1]) <= 1e-9)[0]
            V.check("ramp_structure", bool(lv.max() <= levels[-1] + 1e-9 and (not at_cap.size or np.all(np.abs(lv[at_cap[0]:] - levels[-1]) <= 1e-9))),
                    _ident(r, series=name, kind="cap"), lambda: _wit(r, max_percent=float(lv.max())),
                    "%s exceeds or leaves its configured maximum" % name)
        else:
            V.check("ramp_structure", not x.any(), _ident(r, series=name, kind="zero_share_but_nonzero"), _wit(r),
                    "%s has a zero share / slope but a non-zero series" % name)
    return ref


# =========================================================================== pair / probe clauses
def first_nonzero(x):
    nz = np.nonzero(x)[0]
    return int(nz[0]) if nz.size else None


DELAY_SERIES = {
    "INDUSTRIAL_FOODS_MONTHS": ["methane_scp", "cellulosic_sugar"],
    "SEAWEED_MONTHS": ["seaweed_built_area"],
}


def check_delay_pair(a, b, p, V):
    k = b.timers_applied.get(p["key"], 0) - a.timers_applied.get(p["key"], 0)
    if k <= 0 or a.N != b.N:
        return
    n = a.N
    for name in DELAY_SERIES.get(p["key"], []):
        xa, xb = a.series[name], b.series[name]
        if xa.size != n or xb.size != n or not (xa != xa[0]).any():
            continue  # family switched off, or nothing happens inside the horizon
        ok = close(xb[k:], xa[:n - k]) and close(xb[:k], np.full(k, xa[0]))
        observed = None
        if not ok:
            for j in range(0, n):
                if close(xb[j:], xa[:n - j]) and close(xb[:j], np.full(j, xa[0])):
                    observed = j
                    break
        per = None if observed is None else (observed / k if observed % k else observed // k)
        V.check("delay_shift", ok, {"series": name, "timer": p["key"], "observed_shift_per_month_of_delay": per},
                lambda: _wit(a, twin_job=b.job.get("tag"), delay_a=a.timers_applied.get(p["key"]),
                             delay_b=b.timers_applied.get(p["key"]), expected_shift=k, observed_shift=observed,
                             first_production_month_a=first_nonzero(xa - xa[0]), first_production_month_b=first_nonzero(xb - xb[0])),
                "delaying %s by %d months shifts %s by %s months" % (p["key"], k, name, observed))
    for name in engine_p0.SERIES:
        if name in DELAY_SERIES.get(p["key"], []) or name not in a.series or name not in b.series:
            continue
        if p["key"] == "GREENHOUSE_MONTHS" and name in ("greenhouse_crops", "outdoor_crops"):
            continue
        V.check("delay_shift", np.array_equal(a.series[name], b.series[name]),
                {"series": name, "timer": p["key"], "kind": "unrelated_series_changed"},
                lambda: _wit(a, twin_job=b.job.get("tag")), "%s changed when only %s changed" % (name, p["key"]))


def check_scale_pair(a, b, p, V):
    col = p["column"]
    affected, _bound = engine_p0.SCALE_COLUMNS[col]
    names = engine_p0.STOCK_COLS if col == "stocks" else [col]
    factors = [b.row[c] / a.row[c] for c in names if a.row[c] != 0]
    if not factors:
        return
    f = factors[0]
    if any(abs(x - f) > 1e-15 * abs(f) for x in factors):
        return
    for name in engine_p0.SERIES:
        xa, xb = a.series.get(name), b.series.get(name)
        if xa is None or xb is None:
            continue
        if name in affected:
            ok = close(xb, xa * f)
            i, rel = worst(xb, xa * f)
            if ok:
                V.resid("scaling:" + name, rel)
            cause = "value"
            if not ok and name in ("outdoor_crops",):
                keep = 1 - a.inputs["WASTE_DISTRIBUTION"]["CROPS"] / 100
                if keep > 0 and on_integer_lattice(xa / keep) and on_integer_lattice(xb / keep):
                    cause = "integer_truncation"
            V.check("scaling", ok, _ident(a, series=name, column=col, cause=cause, branch=engine_p0.branch_of(a.inputs)),
                    lambda: _wit(a, twin_job=b.job.get("tag"), factor=f, month=i, base=float(xa.ravel()[i]),
                                 scaled=float(xb.ravel()[i]), expected=float(xa.ravel()[i] * f), rel_diff=rel),
                    "scaling %s by %g does not scale %s by that factor" % (col, f, name))
        else:
            V.check("scaling_others_unchanged", np.array_equal(xa, xb), _ident(a, series=name, column=col),
                    lambda: _wit(a, twin_job=b.job.get("tag"), factor=f, month=worst(xa, xb)[0]),
                    "%s changed when only %s was scaled" % (name, col))


def check_onehot(r, p, V):
    c = p["calendar_month"]  # 1 = January
    x = r.series["outdoor_crops"]
    n = r.N
    first = (c - 5) % 12  # month 0 is May (calendar month 5)
    want = np.zeros(n, bool)
    want[first::12] = True
    got = x > 0
    V.check("calendar_onehot", bool(np.array_equal(got, want)), {"series": "outdoor_crops", "kind": "harvest_month_alignment"},
            lambda: _wit(r, calendar_month=c, expected_months=core.jsonable(np.where(want)[0][:6]),
                         observed_months=core.jsonable(np.where(got)[0][:6])),
            "a harvest that falls entirely into calendar month %d is not produced in model months %d, %d, ..." % (c, first, first + 12))


def check_step(r, p, V):
    n = r.N
    name = "outdoor_crops" if p["family"] == "crop" else "grass"
    x = r.series[name]
    y = p["year"]
    # written out by hand, independently of data_year(): year 1 = May-December = months 0..7; year y
    # starts in January = month 8 + 12 (y - 2); after year 10 there is no data and year 10 is extended
    if y == 1:
        block = list(range(0, 8))
    elif y < 10:
        block = list(range(8 + 12 * (y - 2), 8 + 12 * (y - 1)))
    else:
        block = list(range(104, max(n, 116)))
    block = [m for m in block if m < n]
    if x.size != n:
        return
    vals, counts = np.unique(np.round(x, 9), return_counts=True)
    normal = vals[int(np.argmax(counts))]
    got = [int(m) for m in np.where(np.abs(x - normal) > 1e-9 * max(1.0, abs(normal)))[0]]
    kind = "block"
    if got != block and name == "grass":
        ny = n // 12
        code_blocks = [8] + [12] * max(0, ny - 2) + [16]
        yr = [yy + 1 for yy, k in enumerate(code_blocks) for _ in range(k)][:n]
        if got == [m for m in range(n) if yr[m] == y]:
            kind = "last_simulated_year_extended_instead_of_next_year"
    V.check("year_block_step", got == block, {"series": name, "kind": kind, "horizon": "horizon_below_120" if n < 120 else "horizon_120"},
            lambda: _wit(r, disrupted_year=y, expected_months=[block[0], block[-1]] if block else [],
                         observed_months=[got[0], got[-1]] if got else []),
            "disrupting model year %d changes %s in months %s, expected %s" % (
                y, name, [got[0], got[-1]] if got else [], [block[0], block[-1]] if block else []))


# =========================================================================== history
def generate(seed, h, tier):
    if h % P_SLICE_EVERY == P_SLICE_EVERY - 1:
        from .. import pcheck

        s = pcheck.generate(seed, ID, h, tier, jobs=(2, 3), vertex_p=0.3, fault_p=0.35, buggify_p=0.2)
        s["p_slice"] = True
        return s
    rng = core.Rng(seed, ID, h)
    wl = rng.sub("workload")
    hb = engine_p0.HistoryBuilder(h, ID)
    profile = workload.swarm_profile(wl)
    for _ in range(5):
        hb.add(engine_p0.base_job(wl, profile, world_p=0.12, overrides_p=0.3, small_p=0.15))
    # scaling twins of one country base job (its own tag is the pair's "a")
    sc = rng.sub("scale")
    anchor = engine_p0.base_job(sc, profile, country_only=True, small_p=0.2)
    a = hb.add(anchor)
    seen = set()
    for _ in range(3):
        t = engine_p0.scale_twin(sc, anchor)
        if t is None or t[1]["column"] in seen:
            continue
        seen.add(t[1]["column"])
        hb.pair(a, hb.add(t[0]), t[1])
    # delay pairs
    dl = rng.sub("delay")
    for key in [dl.pick(["INDUSTRIAL_FOODS_MONTHS", "INDUSTRIAL_FOODS_MONTHS", "SEAWEED_MONTHS"]),
                dl.pick(["INDUSTRIAL_FOODS_MONTHS", "SEAWEED_MONTHS"])]:
        ja, jb, rec = engine_p0.delay_pair(dl, engine_p0.base_job(dl, None, world_p=0.15, overrides_p=0.1), key)
        hb.pair(hb.add(ja), hb.add(jb), rec)
    # calendar probes
    pr = rng.sub("probe")
    j, rec = engine_p0.onehot_probe(pr)
    hb.probe(hb.add(j), rec)
    for fam in ("crop", "grass"):
        j, rec = engine_p0.step_probe(pr, fam)
        hb.probe(hb.add(j), rec)
    # schedule: in ~30 % of the histories every scenario is prepared before any is computed
    hb.spec["interleave"] = rng.sub("schedule").chance(0.3)
    return hb.spec


def evaluate(results, spec, V, probes):
    nontrivial, evaluations = [], 0
    for r in results:
        if r.status != "ok":
            continue
        ref = check_job(r, V)
        if ref is None:
            probes["no_verdict_negative_ratio"] = probes.get("no_verdict_negative_ratio", 0) + 1
            continue
        evaluations += 1
        if r.series["seaweed_growth"].size > r.N:
            probes["growth_table_longer_than_horizon"] = probes.get("growth_table_longer_than_horizon", 0) + 1
        on = [k for k in engine_p0.SERIES if k in r.series and r.series[k].any()]
        for k in on:
            probes["family_on:" + k] = probes.get("family_on:" + k, 0) + 1
        if on:
            nontrivial.append(engine_p0.job_case_digest(r))
    for p in spec["pairs"]:
        a, b = results[p["a"]], results[p["b"]]
        if a.status != "ok" or b.status != "ok":
            probes["pair_without_verdict"] = probes.get("pair_without_verdict", 0) + 1
            continue
        if p["kind"] == "scale":
            check_scale_pair(a, b, p, V)
        elif p["kind"] == "delay":
            check_delay_pair(a, b, p, V)
    for p in spec["probes"]:
        r = results[p["job"]]
        if r.status != "ok":
            probes["probe_without_verdict"] = probes.get("probe_without_verdict", 0) + 1
            continue
        if p["kind"] == "onehot":
            check_onehot(r, p, V)
        elif p["kind"] == "step":
            check_step(r, p, V)
    return nontrivial, evaluations


def _p_nontrivial(t, spec, i):
    return [core.digest([spec["jobs"][i], "rounds"])] if len(t.rounds) >= 2 else []


def execute(spec):
    if spec.get("p_slice"):
        from .. import monitors, pcheck

        return pcheck.execute(spec, ID, monitors.c08_rounds, _p_nontrivial)
    return engine_p0.run_history(spec, evaluate)


def shrink(spec):
    if spec.get("p_slice"):
        from .. import pcheck

        for s in pcheck.shrink(spec):
            s["p_slice"] = True
            yield s
        return
    for s in engine_p0.shrink(spec):
        yield s
