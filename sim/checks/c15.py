"""C15 - the aggregate fed fraction is a capped, population-weighted mean of the selection.

Engine G: the coordinator `ScenarioRunnerNoTrade.run_model_no_trade` (with
get_countries_to_run_and_skip, apply_custom_parameters, verify_country_data, fill_data_for_map
and the aggregation loop) is REAL code. The per-country worker `run_optimizer_for_country` is
replaced inside the forked child by a seeded stub returning (ratio, "stub description", sentinel)
with ratios in {0, (0,1), 1, >1, NaN}; NaN is the failed-worker fault (the coordinator documents
NaN as "failed country"). A slice of histories runs 2-4 countries with the REAL worker inside
engine P's simulated world to validate that the stub boundary carries the same values.

History = 3-8 public coordinator calls in one process (same or fresh runner instance), each with
its own selection list, option dictionary (a shipped preset, optionally with table-column
overrides through the documented apply_custom_parameters route) and ratio vector.

Oracle = reference model written from the property statement (never from the code):
  run set : []                      -> every table country
            all entries "!XXX"      -> every table country except those named
            no entry with "!"       -> exactly the named countries that exist in the table
            mixed                   -> the statement fixes no set: only the invariants below are
                                       checked, over the countries the worker was called for
  net_pop      == sum(pop_c)                 over run countries whose worker did not fail
  net_pop_fed  == sum(pop_c * min(1, r_c))   over the same countries
  0 <= net_pop_fed / net_pop <= 1            when net_pop > 0
  results (return_results=True) holds exactly the run, non-failed countries, each once, each
  mapped to the object its worker returned; the worker was called exactly once per run country
  and never for a skipped one.
pop_c is the table population, or the overridden one when the option dict overrides it.
"""

import copy
import math

from .. import core, engine_g, engine_p, monitors, workload, world

ID = "C15"
LEVEL = "exploration"
MAIN_CLAUSES = ["selection_semantics", "weighted_mean", "bounded_0_1", "each_country_once",
                "worker_called_once_per_country", "stub_boundary_matches_real"]
RULE = (
    "history = 3-8 seeded public run_model_no_trade calls in one process (stubbed worker; a slice of histories: 1-2 "
    "calls of 2-4 countries with the real worker), each with a seeded selection (empty / inclusion 1-20 / exclusion / "
    "mixed / unknown codes / duplicates / SWT / nothing valid), a shipped option preset with optional table-column "
    "overrides (population) and a seeded ratio vector over {0,(0,1),1,>1,NaN}; a case = one call whose returned "
    "[world, net_pop, net_pop_fed, results] is compared with the reference model; non-trivial = >=2 countries run; "
    "distinct = distinct (selection digest, ratio-vector digest)"
)
ASSUMPTIONS = [
    "selection syntax explored = lists of 3-letter codes, each optionally prefixed by '!' (the documented syntax); "
    "codes containing '!' elsewhere, lower-case codes and non-list arguments are outside the statement",
    "a worker that returns NaN is a failed country: it is left out of both sums and of the results (documented by the "
    "coordinator's own failed-countries bookkeeping); the statement's sums run over the countries that produced a "
    "fraction",
    "for mixed lists the statement fixes no run set: only the aggregate / once-only invariants are checked over the "
    "countries the worker was actually called for",
    "when no country runs (net_pop == 0) the fraction is undefined: only net_pop == net_pop_fed == 0 and empty "
    "results are required",
    "sums compared at 1e-9 relative (floats summed in table order); the [0,1] bound allows 1e-12; consequently a cap "
    "threshold that is off by less than 1e-9 cannot be seen (ratios 1 +/- 10**-k, k = 1..15, are generated)",
    "with return_results=False the results mapping is empty by contract and only the aggregates are checked",
    "a coordinator call that raises (e.g. verify_country_data rejecting an overridden population, or a worker "
    "exception it lets through) returns nothing and gets no verdict; it is counted as a probe. A call that RETURNS "
    "although a worker visit raised is judged over the visits that returned",
    "the call that meets a torn (half) read of the country table cannot know: it gets no verdict; every later call "
    "of the history is judged as usual",
]
COMPONENTS = {
    "real": ["ScenarioRunnerNoTrade.run_model_no_trade", "get_countries_to_run_and_skip", "apply_custom_parameters",
             "verify_country_data", "fill_data_for_map", "pandas read of the combined table",
             "geopandas world map read",
             "run_optimizer_for_country + whole pipeline + CBC in the real-worker slice of histories"],
    "simulated": ["failed-worker fault (NaN ratio) at the worker seam",
                  "transient worker exception (first visit of a country raises) at the worker seam",
                  "transient torn read of the combined country table at the pandas.read_csv seam (stubbed histories)",
                  "clock / results FS / table-read seams of engine P in the real-worker slice (no faults planned)"],
    "stub": ["run_optimizer_for_country replaced by a seeded stub in the stubbed histories"],
}
TIERS = {
    "quick": {"histories": 112, "real": 6, "budget_s": 50, "timeout": 240, "shrink_s": 60, "batch": 112},
    "thorough": {"histories": 2400, "real": 72, "budget_s": 480, "timeout": 300, "shrink_s": 120, "batch": 200},
}

REL_TOL = 1e-9
BOUND_TOL = 1e-12
UNKNOWN = ["ZZZ", "XXX", "SWZ", "WOR", "KOS"]  # none of these is a code of the table
EU_LIST = ["SWT", "GBR", "AUT", "BEL", "BGR", "HRV", "CYP", "CZE", "DNK", "EST", "FIN", "FRA", "DEU", "GRC", "HUN",
           "IRL", "ITA", "LVA", "LTU", "LUX", "MLT", "NLD", "POL", "PRT", "ROU", "SVK", "SVN", "ESP", "SWE"]


def prepare():
    world.setup_repo()


# --------------------------------------------------------------------------- table (read independently of pandas)
def table():
    """[(iso3, name, population)] in table order, from the csv module."""
    return [(r["iso3"], r["country"], float(r["population"])) for r in workload.table_rows()]


# --------------------------------------------------------------------------- reference model (from the statement)
def selection_kind(selection):
    if len(selection) == 0:
        return "empty"
    neg = [s.startswith("!") for s in selection]
    if all(neg):
        return "exclusion"
    if not any(neg):
        return "inclusion"
    return "mixed"


def reference_run_set(selection, codes):
    """Codes the statement says must run, in table order; None when the statement fixes no set."""
    kind = selection_kind(selection)
    if kind == "empty":
        return list(codes)
    if kind == "exclusion":
        named = {s[1:] for s in selection}
        return [c for c in codes if c not in named]
    if kind == "inclusion":
        named = set(selection)
        return [c for c in codes if c in named]
    return None


def reference_aggregate(run_codes, pop_of, ratio_of):
    """(net_pop, net_pop_fed, [codes that count]) summed in the given order."""
    net_pop, net_fed, counted = 0.0, 0.0, []
    for c in run_codes:
        r = ratio_of[c]
        if r != r:
            continue  # failed worker
        net_pop += pop_of[c]
        net_fed += pop_of[c] * min(1.0, r)
        counted.append(c)
    return net_pop, net_fed, counted


def close(got, want, tol=REL_TOL):
    try:
        got = float(got)
    except (TypeError, ValueError):
        return False
    return abs(got - want) <= tol * max(abs(want), 1.0)


# --------------------------------------------------------------------------- generation
def _sample_codes(rng, codes, k):
    out = []
    while len(out) < min(k, len(codes)):
        c = workload.pick_country(rng, bias=0.3)
        if c not in out:
            out.append(c)
    return out


def _decorate(rng, sel, prefix, codes):
    """unknown codes, duplicates, SWT - keeping the syntactic kind of the list."""
    flags = []
    if rng.chance(0.3):
        for _ in range(1 + rng.randrange(2)):
            sel.insert(rng.randrange(len(sel) + 1), prefix + rng.pick(UNKNOWN))
        flags.append("unknown")
    if sel and rng.chance(0.3):
        for _ in range(1 + rng.randrange(2)):
            sel.insert(rng.randrange(len(sel) + 1), rng.pick(sel))
        flags.append("duplicate")
    if rng.chance(0.25) and (prefix + "SWT") not in sel:
        sel.insert(rng.randrange(len(sel) + 1), prefix + "SWT")
        flags.append("SWT")
    return flags


def gen_selection(rng, codes):
    r = rng.random()
    if r < 0.10:
        return [], ["empty"]
    if r < 0.42:
        k = rng.pick([1, 2, 2, 3, 3, 4, 5, 8, 12, 20, 1 + rng.randrange(20)])
        sel = _sample_codes(rng, codes, k)
        flags = _decorate(rng, sel, "", codes)
        return sel, ["inclusion"] + flags
    if r < 0.72:
        q = rng.random()
        if q < 0.2:
            base = list(EU_LIST)
        elif q < 0.5:
            base = _sample_codes(rng, codes, rng.pick([1, 2, 5, 10, 29]))
        else:  # exclude almost everything: small run sets through the exclusion syntax
            keep = set(_sample_codes(rng, codes, rng.pick([1, 2, 3, 4, 6])))
            base = [c for c in codes if c not in keep]
            rng.shuffle(base)
        sel = ["!" + c for c in base]
        flags = _decorate(rng, sel, "!", codes)
        return sel, ["exclusion"] + flags
    if r < 0.88:
        inc = _sample_codes(rng, codes, 1 + rng.randrange(6))
        exc = _sample_codes(rng, codes, 1 + rng.randrange(6))
        if rng.chance(0.4):
            exc[0] = inc[0]  # the same code both ways
        sel = inc + ["!" + c for c in exc]
        rng.shuffle(sel)
        flags = _decorate(rng, sel, rng.pick(["", "!"]), codes)
        return sel, ["mixed"] + flags
    q = rng.random()
    if q < 0.4:
        return [rng.pick(UNKNOWN) for _ in range(1 + rng.randrange(3))], ["inclusion", "nothing_valid"]
    if q < 0.7:
        sel = ["!" + c for c in codes]
        rng.shuffle(sel)
        return sel, ["exclusion", "nothing_valid"]
    return ["!" + rng.pick(UNKNOWN)], ["exclusion", "unknown_only"]


def _ratio_value(rng, cls):
    if cls == "zero":
        return 0.0
    if cls == "one":
        return 1.0
    if cls == "nan":
        return float("nan")
    if cls == "between":
        return rng.pick([rng.uniform(0.001, 0.999), rng.uniform(0.001, 0.999), 0.5, 1e-12, 5e-324,
                         0.9999999999999999, 0.999, 0.25, rng.randrange(1, 100) / 100])
    return rng.pick([1.0000000000000002, 1.0001, 1.7, 25.0, 1e6, 1.0 + 3 * rng.random(), 1.0000001])


PROFILES = {
    "varied": {"zero": 1, "between": 4, "one": 1, "above_one": 3, "nan": 1},
    "mostly_fed": {"between": 1, "one": 2, "above_one": 6},
    "all_above_one": {"above_one": 1},
    "all_zero": {"zero": 1},
    "all_failed": {"nan": 1},
    "many_failed": {"between": 2, "above_one": 1, "nan": 3},
    "boundary": {"one": 2, "between": 2, "above_one": 2},
    "no_faults": {"zero": 1, "between": 4, "one": 1, "above_one": 3},
    # every country a hair above / below the cap: a cap threshold that is slightly off shows up in the sums
    "just_above_one": {"above_one": 1},
    "just_below_one": {"between": 1},
}


def gen_ratios(rng, codes):
    name = rng.pick(["varied", "varied", "varied", "mostly_fed", "all_above_one", "all_zero", "all_failed",
                     "many_failed", "boundary", "no_faults", "no_faults", "just_above_one", "just_below_one"])
    w = PROFILES[name]
    k_all = rng.randrange(1, 9)  # hair width 10**-k, shared by the call in three calls out of four
    shared = rng.chance(0.75)
    classes = sorted(w)
    weights = [w[c] for c in classes]
    by_code = {}
    for c in codes:
        cls = rng.choices(classes, weights)[0]
        if name == "boundary":
            v = {"one": 1.0, "between": 0.9999999999999999, "above_one": 1.0000000000000002}[cls]
        elif name in ("just_above_one", "just_below_one"):
            k = k_all if shared else rng.randrange(1, 16)
            v = 1.0 + 10.0 ** -k if name == "just_above_one" else 1.0 - 10.0 ** -k
        else:
            v = _ratio_value(rng, "above_one" if cls == "above_one" else cls)
        by_code[c] = engine_g.encode_ratio(v)
    out = {"profile": name, "default": 0.5, "by_code": by_code}
    if rng.chance(0.15):
        # transient worker failure: the first visit of one or two countries raises
        out["raise_once"] = sorted(_sample_codes(rng, codes, rng.pick([1, 1, 2])))
    return out


def gen_overrides(rng, real=False, ref_pop=None):
    o = {}
    if real:
        if rng.chance(0.5):
            o["population"] = float(int(ref_pop * rng.pick([0.5, 0.8, 1.25, 2.0])))
        return o
    r = rng.random()
    if r < 0.32:
        o["population"] = rng.pick([12345678, 10001, 9.99e9, 1234567.5, "2500000", 1e8,
                                    rng.randrange(10001, 2_000_000_000), rng.randrange(10001, 100_000)])
    elif r < 0.36:
        o["population"] = rng.pick([5000, 10000, 1e10])  # verify_country_data must reject these
    if rng.chance(0.15):
        k, v = rng.pick([("dairy_cows", 1000), ("crop_area_1000ha", 100.0), ("kg_meat_per_large_animal", 200),
                         ("grasses_baseline", 12.5), ("small_animals", 0)])
        o[k] = v
    return o


def generate(seed, h, tier):
    rng = core.Rng(seed, ID, h)
    codes = workload.country_codes()
    presets = workload.country_presets()
    n_real = TIERS[tier]["real"]
    wl = rng.sub("workload")
    if h < n_real:
        calls = []
        for i in range(wl.pick([1, 1, 2])):
            n = wl.pick([2, 2, 3, 4]) if i == 0 else 2
            keep = _sample_codes(wl, codes, n)
            if wl.chance(0.25) and "SWT" not in keep:
                keep[-1] = "SWT"
            if wl.chance(0.3):
                excl = [c for c in codes if c not in keep]
                wl.shuffle(excl)
                sel, flags = ["!" + c for c in excl], ["exclusion"]
                if wl.chance(0.3):
                    sel.insert(wl.randrange(len(sel)), "!ZZZ")
                    flags.append("unknown")
            else:
                sel, flags = list(keep), ["inclusion"]
                if wl.chance(0.3):
                    sel.insert(wl.randrange(len(sel) + 1), wl.pick(UNKNOWN))
                    flags.append("unknown")
                if wl.chance(0.3):
                    sel.insert(wl.randrange(len(sel) + 1), wl.pick(keep))
                    flags.append("duplicate")
            pname, opts = wl.pick(presets)
            calls.append({
                "selection": sel, "flags": flags, "preset": pname, "options": dict(opts),
                "overrides": gen_overrides(wl, real=True, ref_pop=workload_pop(keep[0])),
                "return_results": True, "new_runner": wl.chance(0.5), "title": "g%d" % i,
            })
        return {"h": h, "mode": "real", "calls": calls}
    calls = []
    for i in range(3 + wl.randrange(6)):
        sel, flags = gen_selection(wl.sub("sel", i), codes)
        pname, opts = wl.pick(presets)
        calls.append({
            "selection": sel, "flags": flags, "preset": pname, "options": dict(opts),
            "overrides": gen_overrides(wl.sub("ovr", i)),
            "ratios": gen_ratios(rng.sub("faults", i), codes),
            "ratio_type": wl.pick(["float", "float", "np"]),
            "return_results": not wl.chance(0.12), "new_runner": wl.chance(0.5), "title": "g%d" % i,
        })
    fr = rng.sub("readfault")
    if fr.chance(0.12):
        # transient torn read of the country table (it is being regenerated while THIS call reads it): the call that
        # meets it yields no verdict, the calls after it are judged as usual. Usually the first read of the process.
        calls[0 if fr.chance(0.7) else fr.randrange(len(calls))]["read_fault"] = "truncated"
    return {"h": h, "mode": "stub", "calls": calls}


def workload_pop(code):
    return float(workload.row_of(code)["population"])


# --------------------------------------------------------------------------- the monitor
def judge(call, out, mode, V, log, call_no):
    """Compares one returned [world, net_pop, net_pop_fed, results] with the reference model.
    Returns (number of countries run, ratio vector of the run countries)."""
    tab = table()
    codes = [c for c, _n, _p in tab]
    name_of = {c: n for c, n, _p in tab}
    table_pop = {c: p for c, _n, p in tab}
    selection = list(call["selection"])
    kind = selection_kind(selection)
    overrides = call.get("overrides", {})
    overridden = "population" in overrides
    pop_of = {c: (float(overrides["population"]) if overridden else table_pop[c]) for c in codes}
    # a visit that raised produced nothing; if the coordinator carried on regardless (it does not, today), the
    # aggregate is still judged over the visits that returned
    called = [c.iso3 for c in out.crossings if c.raised is None]
    ratio_of = {c.iso3: c.ratio for c in out.crossings if c.raised is None}
    base = {"selection": kind, "mode": mode}
    ctx = {"call": call_no, "selection": selection[:40], "n_selection": len(selection), "flags": call.get("flags"),
           "overrides": overrides, "preset": call.get("preset")}

    def verdict(clause, ok, identity, witness, detail):
        ident = dict(base)
        ident.update(identity)
        def full_witness():
            w = dict(ctx)
            w.update(witness() if callable(witness) else witness)
            return w

        V.check(clause, ok, ident, full_witness, detail)
        log.add("MONITOR", prop=ID, clause=clause, call=call_no, ok=bool(ok))
        return ok

    # ---- worker called exactly once per run country, never for a country outside the table
    counts = {}
    for c in called:
        counts[c] = counts.get(c, 0) + 1
    twice = sorted(c for c, n in counts.items() if n > 1)
    foreign = sorted(c for c in counts if c not in table_pop)
    verdict("worker_called_once_per_country", not twice and not foreign,
            {"kind": "called_twice" if twice else "called_for_unknown_code",
             "duplicates_in_list": "duplicate" in (call.get("flags") or [])},
            {"called_twice": twice, "not_in_table": foreign},
            "the per-country worker ran more than once for a country, or for a code that is not in the table")

    # ---- the run set
    ref = reference_run_set(selection, codes)
    if ref is not None:
        missing = [c for c in ref if c not in counts]
        extra = [c for c in counts if c not in set(ref)]
        verdict("selection_semantics", not missing and not extra,
                {"kind": "country_not_run" if missing else "skipped_country_run",
                 "unknown_codes": "unknown" in (call.get("flags") or []),
                 "duplicates_in_list": "duplicate" in (call.get("flags") or [])},
                {"expected_run": len(ref), "actually_run": len(counts), "missing": missing[:20], "extra": extra[:20]},
                "the countries that ran are not the ones the selection list names")
        run = list(ref)
    else:
        V.ev("mixed_list_invariants_only")
        run = [c for c in codes if c in counts]
    # the aggregate is judged over the countries that produced a fraction; a country the statement
    # selects but which never ran is already reported above
    run_seen = [c for c in run if c in ratio_of]

    # ---- capped, population-weighted sums
    want_pop, want_fed, counted = reference_aggregate(run_seen, pop_of, ratio_of)
    has_failed = any(ratio_of[c] != ratio_of[c] for c in run_seen)
    ok_pop = close(out.net_pop, want_pop)
    ok_fed = close(out.net_pop_fed, want_fed)
    for got, want, nm in ((out.net_pop, want_pop, "net_pop"), (out.net_pop_fed, want_fed, "net_pop_fed")):
        try:
            V.resid(nm, abs(float(got) - want) / max(abs(want), 1.0))
        except (TypeError, ValueError):
            pass
    verdict("weighted_mean", ok_pop and ok_fed,
            {"kind": "net_pop" if not ok_pop else "net_pop_fed", "population_overridden": overridden,
             "failed_worker": has_failed},
            lambda: {"net_pop": out.net_pop, "expected_net_pop": want_pop, "net_pop_fed": out.net_pop_fed,
                     "expected_net_pop_fed": want_fed,
                     "countries": [[c, pop_of[c], ratio_of[c]] for c in run_seen[:12]],
                     "population_at_worker_boundary": [[c.iso3, c.population] for c in out.crossings[:12]]},
            "returned sums differ from sum(pop) / sum(pop*min(1,ratio)) over the run, non-failed countries")

    # ---- 0 <= fraction <= 1
    try:
        npop, nfed = float(out.net_pop), float(out.net_pop_fed)
    except (TypeError, ValueError):
        npop, nfed = float("nan"), float("nan")
    if npop > 0:
        frac = nfed / npop
        verdict("bounded_0_1", 0.0 <= frac <= 1.0 + BOUND_TOL,
                {"kind": "fraction_above_1" if frac > 1 else "fraction_below_0_or_nan",
                 "ratio_classes": sorted({engine_g.ratio_class(ratio_of[c]) for c in run_seen})},
                {"net_pop": npop, "net_pop_fed": nfed, "fraction": frac},
                "aggregate fraction fed outside [0, 1]")
    elif not counted:
        V.ev("nothing_counted_fraction_undefined")
    else:
        verdict("bounded_0_1", False, {"kind": "net_pop_not_positive"},
                {"net_pop": out.net_pop, "net_pop_fed": out.net_pop_fed, "counted": len(counted)},
                "countries were counted yet the population sum is not positive")

    # ---- every run, non-failed country exactly once in results (keyed by country NAME)
    if call.get("return_results", True):
        by_code = {c.iso3: c for c in out.crossings if c.raised is None}
        want_names = [name_of[c] for c in counted]
        got_names = list(out.results.keys())
        collide = sorted({n for n in want_names if want_names.count(n) > 1})
        missing = [n for n in want_names if n not in out.results]
        extra = [n for n in got_names if n not in set(want_names)]
        wrong_obj = [name_of[c] for c in counted
                     if name_of[c] in out.results and not collide and out.results[name_of[c]] is not by_code[c].result]
        ok = not missing and not extra and not wrong_obj and len(got_names) == len(want_names)
        verdict("each_country_once", ok,
                {"kind": ("two_countries_share_a_name" if collide else "country_missing" if missing else
                          "unselected_or_failed_country_present" if extra else
                          "result_of_another_country" if wrong_obj else "count_differs"),
                 "failed_worker": has_failed},
                {"expected": len(want_names), "returned": len(got_names), "missing": missing[:20], "extra": extra[:20],
                 "wrong_object": wrong_obj[:20], "name_collisions": collide},
                "results does not hold every run, non-failed country exactly once")
    else:
        V.ev("return_results_false_aggregates_only")
    return len(run_seen), [ratio_of[c] for c in run_seen]


def judge_boundary(call, out, V, log, call_no):
    """Real-worker slice: what crosses the coordinator/worker boundary is what the stub models."""
    overrides = call.get("overrides", {})
    tab = {c: p for c, _n, p in table()}
    for c in out.crossings:
        want_pop = float(overrides["population"]) if "population" in overrides else tab.get(c.iso3)
        problems = []
        if not (c.ratio == c.result_percent / 100):
            problems.append("ratio_is_not_percent_people_fed_over_100")
        if want_pop is None or not close(c.population, want_pop, 1e-12):
            problems.append("row_population_differs")
        if c.result_pop is not None and c.result_pop != c.population:
            problems.append("model_population_differs_from_row")
        if not c.row_overrides_ok:
            problems.append("override_missing_from_row")
        if not isinstance(c.description, str):
            problems.append("description_not_a_string")
        if not (c.ratio == c.ratio and c.ratio >= 0):
            problems.append("ratio_outside_stub_domain")
        V.check("stub_boundary_matches_real", not problems,
                {"kind": problems[0] if problems else "", "iso3": c.iso3},
                {"call": call_no, "iso3": c.iso3, "problems": problems, "ratio": c.ratio,
                 "percent_people_fed": c.result_percent, "row_population": c.population,
                 "expected_population": want_pop, "model_POP": c.result_pop, "overrides": overrides},
                "the real worker's return value / inputs differ from what the stub models")
        log.add("MONITOR", prop=ID, clause="stub_boundary_matches_real", call=call_no, iso3=c.iso3, ok=not problems)
        V.ev("real_ratio_" + engine_g.ratio_class(c.ratio))


# --------------------------------------------------------------------------- execution
def _sample(spec):
    out = []
    for c in spec["calls"]:
        rs = c.get("ratios") or {}
        out.append({
            "selection": c["selection"] if len(c["selection"]) <= 24 else c["selection"][:24] + ["...%d more" % (len(c["selection"]) - 24)],
            "flags": c.get("flags"), "preset": c.get("preset"), "overrides": c.get("overrides"),
            "ratio_profile": rs.get("profile"), "ratio_type": c.get("ratio_type"),
            "return_results": c.get("return_results"), "new_runner": c.get("new_runner"),
        })
    return {"mode": spec["mode"], "calls": out}


def execute(spec):
    m = world.mods()
    mode = spec["mode"]
    rng = core.Rng("C15-exec", spec["h"])
    log = core.EventLog()
    d = world.enter_history("c15-%s" % spec["h"])
    V = monitors.Verdicts(ID)
    nontrivial, statuses, probes = [], {}, {}
    evaluations, aborts, sim_months = 0, 0, 0

    tables = None

    def run_calls(seam):
        nonlocal evaluations, aborts, sim_months
        runner = None
        for i, call in enumerate(spec["calls"]):
            if runner is None or call.get("new_runner", True):
                with world.quiet():
                    runner = m.rmnt.ScenarioRunnerNoTrade()
            torn = False
            if tables is not None and call.get("read_fault"):
                tables.start_job()
                tables.plan[("computer_readable_combined.csv", 0)] = call["read_fault"]
            out = engine_g.call_coordinator(runner, seam, log, i, call, mode)
            if tables is not None and call.get("read_fault"):
                torn = tables.plan.pop(("computer_readable_combined.csv", 0), None) is None
            st = out.status.split(":")[0]
            statuses[st] = statuses.get(st, 0) + 1
            kind = selection_kind(call["selection"])
            probes["selection_" + kind] = probes.get("selection_" + kind, 0) + 1
            for f in call.get("flags") or []:
                probes["flag_" + f] = probes.get("flag_" + f, 0) + 1
            if "population" in call.get("overrides", {}):
                probes["population_overridden"] = probes.get("population_overridden", 0) + 1
            if out.status != "ok":
                pop = call.get("overrides", {}).get("population")
                if pop is not None and not (10_000 < float(pop) < 1e10) and out.status == "raised:AssertionError":
                    probes["rejected_invalid_population"] = probes.get("rejected_invalid_population", 0) + 1
                else:
                    aborts += 1
                    key = "abort:" + (out.error or out.status)[:90]
                    probes[key] = probes.get(key, 0) + 1
                continue
            if torn:
                probes["faulted_call_without_verdict"] = probes.get("faulted_call_without_verdict", 0) + 1
                continue
            n_run, vec = judge(call, out, mode, V, log, i)
            evaluations += 1
            for c in out.crossings:
                if c.raised is not None:
                    probes["carried_on_after_worker_exception"] = probes.get("carried_on_after_worker_exception", 0) + 1
                    continue
                k = "ratio_" + engine_g.ratio_class(c.ratio)
                probes[k] = probes.get(k, 0) + 1
            if n_run == 0:
                probes["nothing_ran"] = probes.get("nothing_ran", 0) + 1
            if mode == "real":
                judge_boundary(call, out, V, log, i)
                sim_months += 3 * int(call["options"].get("NMONTHS", 0)) * len(out.crossings)
            if n_run >= 2:
                nontrivial.append(core.digest([call["selection"], vec, call.get("overrides", {})]))

    try:
        with engine_g.WorkerSeam(log) as seam:
            if mode == "real":
                with engine_p.Sim(rng, log, capture=False):
                    run_calls(seam)
            else:
                tables = world.TableReads(log=log)
                tables.install()
                try:
                    run_calls(seam)
                finally:
                    tables.uninstall()
    finally:
        world.leave_history(d)
    restored = m.rmnt.ScenarioRunnerNoTrade.__dict__[engine_g.WORKER].__name__ == engine_g.WORKER and \
        m.rmnt.ScenarioRunnerNoTrade.__dict__[engine_g.WORKER].__module__ == m.rmnt.__name__
    if not restored:
        raise core.HarnessError("worker seam was not restored")
    probes["histories_" + mode] = 1
    return {
        "violations": [v.to_json() for v in V.violations],
        "evaluations": evaluations,
        "nontrivial": nontrivial,
        "clauses": V.clauses,
        "faults": core.fault_counts(log),
        "probes": probes,
        "statuses": statuses,
        "log_digest": log.digest(),
        "sim_months": sim_months,
        "aborts": aborts,
        "max_resid": V.max_resid,
        "sample": _sample(spec),
    }


# --------------------------------------------------------------------------- shrinking
def shrink(spec):
    calls = spec["calls"]
    n = len(calls)

    def variant(i, fn):
        s = copy.deepcopy(spec)
        fn(s["calls"][i])
        return s

    for i in range(n):
        if n > 1:
            s = copy.deepcopy(spec)
            del s["calls"][i]
            s["calls"][0]["new_runner"] = True
            yield s
    for i, c in enumerate(calls):
        sel = c["selection"]
        if len(sel) > 3:
            half = len(sel) // 2
            yield variant(i, lambda x, half=half: x.__setitem__("selection", x["selection"][:half]))
            yield variant(i, lambda x, half=half: x.__setitem__("selection", x["selection"][half:]))
        rs = c.get("ratios")
        if rs and rs.get("by_code"):
            yield variant(i, lambda x: x["ratios"].__setitem__("by_code", {}))
            keys = sorted(rs["by_code"])
            if len(keys) > 1:
                half = len(keys) // 2
                yield variant(i, lambda x, ks=keys[:half]: [x["ratios"]["by_code"].pop(k) for k in ks])
                yield variant(i, lambda x, ks=keys[half:]: [x["ratios"]["by_code"].pop(k) for k in ks])
        for k in list(c.get("overrides", {})):
            yield variant(i, lambda x, k=k: x["overrides"].pop(k))
        if c.get("ratio_type") == "np":
            yield variant(i, lambda x: x.__setitem__("ratio_type", "float"))
        if not c.get("return_results", True):
            yield variant(i, lambda x: x.__setitem__("return_results", True))
        if 1 < len(sel) <= 12:
            for j in range(len(sel)):
                yield variant(i, lambda x, j=j: x["selection"].pop(j))
        if spec["mode"] == "stub" and c.get("preset") != "base":
            def to_base(x):
                x["options"] = dict(workload.country_presets()[0][1])
                x["preset"] = "base"
            yield variant(i, to_base)
