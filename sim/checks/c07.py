"""C07 - herd feeding accounts for energy and starvation consistently (engine H).

Observed: every call of AnimalSpecies.feed_the_species (run-time wrapper: grass/feed before and
after, requirement = NE_balance before, NE_balance after, population_fed before/after, herd,
position in the serving order) and the lists/series returned by main (population,
population_starving_pre_slaughter, feed_used, grass_used).

Oracle per call (g, f = gross grass / feed consumed = before - after; R = requirement;
delivered = 0.6 g + 0.8 f; herd = start-of-month head count; met <=> delivered >= R - tol):
    used_le_supplied_call     nothing left below zero: after >= -tol
    ne_le_requirement         delivered <= R + tol
    grass_only_ruminants      species whose digestion type (species_attributes.csv) is not 'ruminant': g == 0
    strict_priority           a species consumes feed (grass) only if no earlier species (earlier ruminant)
                              of the month's serving order was left unsatisfied
    fed_le_herd               fed <= herd (+ half a head of rounding)
    fed_eq_herd_iff_met       met => fed == herd ; not met => fed < herd (unless herd x shortfall < 1 head)
    fed_fraction              not met => |fed - herd x delivered / R| <= 1 head (round / floor accepted)
    starving_remainder        value appended for THAT month == herd - expected fed (1 head of rounding)
    starving_nonneg           value appended for THAT month >= -0.5
per month: used_le_supplied_month  feed_used[m] <= feed[m], grass_used[m] <= grass[m]
per run (per-head table given): priority_order_key  serving order is descending net kcal gained per slaughter hour
tolerances: energy 1e-9 x R + 16 ulp of the supply seen by the call (consumption is observed as a
difference of supply values); heads: herd x energy tolerance / R.
"""

import numpy as np

from .. import core, engine_h, world

ID = "C07"
LEVEL = "exploration"
MAIN_CLAUSES = ["requirement_matches_tables", "used_le_supplied_call", "used_le_supplied_month", "ne_le_requirement", "grass_only_ruminants",
                "strict_priority", "priority_order_key", "fed_le_herd", "fed_eq_herd_iff_met", "fed_fraction",
                "starving_remainder", "starving_nonneg"]
RULE = (
    "history = 8 (quick) / 24 (thorough) real herd runs (same generator as C06: seeded country incl. SWT alias and "
    "world aggregate, strategy, horizon 24..120, serving order per-head table | fallback, optional head overrides, "
    "explicit monthly feed/grass deliveries k x month-0 need with k in [0,3] plus delivery faults); a case = one run "
    "(every feed_the_species call of every month is judged); non-trivial = >=2 species, >=24 months and >=1 month "
    "in which some herd is neither fully fed nor entirely unfed; distinct = distinct (country, strategy, horizon, "
    "order, overrides, delivery series); clause counts are taken on non-trivial runs only"
)
ASSUMPTIONS = [
    "requirement of a species = NE_balance at the start of its call (LSU x 29000 MJ/yr x regional factor x herd); "
    "cross-checked against the harness's own table reading (probe requirement_differs_from_tables)",
    "digestion efficiencies 0.6 (grass) / 0.8 (feed) as in the property statement; a herd object carrying other "
    "values is reported under ne_le_requirement",
    "the code rounds the fed count: round() or floor to the nearest head is accepted (1 head; 0.5 head for signs)",
    "priority key (per-head table given) = meat kcal per head / hours per head + (LSU x one-LSU net energy / 0.8) / "
    "hours per head, recomputed by the harness from the tables, WITHOUT the regional LSU factor: main() fixes the "
    "order before the regional factors are applied to the herds, and the property does not say which energy figure "
    "the key uses; the order by the key WITH the regional factor (the per-head energy used for feeding) is counted "
    "as probe order_not_descending_by_key_with_regional_factor. Equal keys (1e-12 relative) may appear in any "
    "order. Without a table only strictness w.r.t. the order actually used is judged (the property names no key for "
    "the fallback)",
    "a negative consumption (supply growing during a call) is counted as a probe, not judged",
]
COMPONENTS = {
    "real": ["animal_populations.main and everything it calls (feed_animals, feed_the_species, "
             "calculate_starving_animals_after_feed, get_optimal_next_animal_to_feed, the monthly population loop)",
             "the five shipped herd tables via the real readers", "Food"],
    "simulated": ["monthly feed and grass deliveries incl. delivery faults", "head-count overrides",
                  "per-head meat table rebuilt by the harness from the country row as MeatAndDairy does"],
    "stub": [],
}
TIERS = {
    "quick": {"histories": 960, "runs": 8, "budget_s": 600, "timeout": 240, "batch": 160, "shrink_s": 40},
    "thorough": {"histories": 3000, "runs": 24, "budget_s": 840, "timeout": 300, "batch": 250, "shrink_s": 60},
}

MAX_REPORTS = 12
SHRINK_EACH_IDENTITY = True
EPS = float(np.finfo(float).eps)
KEY_WITH_REGIONAL_FACTOR = False  # see ASSUMPTIONS: the key is judged as evaluated when the order is fixed


def prepare():
    world.setup_repo()
    engine_h.tables()


def generate(seed, h, tier):
    return engine_h.generate(seed, ID, h, TIERS[tier]["runs"])


def order_key(code, typ, table, regional):
    a = engine_h.tables()["attrs"][typ]
    meat = engine_h.per_head_kcal(table, typ) / a["hours"]
    saved = (engine_h.ne_per_head(code, typ, regional=regional) / engine_h.EFF_FEED) / a["hours"]
    return meat + saved


def _descending(keys):
    for i in range(len(keys) - 1):
        if keys[i] < keys[i + 1] and abs(keys[i] - keys[i + 1]) > 1e-12 * max(abs(keys[i]), abs(keys[i + 1])):
            return i
    return None


def monitor(t, V):
    T = engine_h.tables()
    run = t.run
    code = run["country"]
    N, n = t.months, len(t.herds)
    probes = t.probes = getattr(t, "probes", {})

    def bump(k, by=1):
        probes[k] = probes.get(k, 0) + by

    failed = set()

    def check(clause, ok, ident, witness, detail):
        """V.check without re-deriving witness and identity digest for a class already reported in this run."""
        V.ev(clause)
        if ok:
            return
        key = (clause,) + tuple(sorted(ident.items()))
        if key not in failed:
            failed.add(key)
            V.fail(clause, ident, witness() if callable(witness) else witness, detail)

    order = [h["type"] for h in t.herds]
    if not V.check("call_structure", len(t.calls) == n * N and all(
            t.calls[i][0] == order[i % n] for i in range(len(t.calls))), {"order": run["order"]},
            {"calls": len(t.calls), "species": n, "months": N},
            "feed_the_species was not called once per species and month in the returned order"):
        return
    for h in t.herds:
        if h["eff"].get("grass") != engine_h.EFF_GRASS or h["eff"].get("feed") != engine_h.EFF_FEED:
            V.fail("ne_le_requirement", {"branch": "efficiencies_differ"}, {"eff": h["eff"], "animal_type": h["type"]},
                   "digestion efficiencies differ from 0.6 / 0.8")
    rum = [T["attrs"][typ]["digestion"] == "ruminant" for typ in order]

    # ---- serving order key (per run)
    if t.table is not None:
        k_reg = [order_key(code, typ, t.table, True) for typ in order]
        k_one = [order_key(code, typ, t.table, False) for typ in order]
        b_reg, b_one = _descending(k_reg), _descending(k_one)
        if b_reg is not None:
            bump("order_not_descending_by_key_with_regional_factor")
        if b_one is not None:
            bump("order_not_descending_by_key_with_factor_1")
        keys, b = (k_reg, b_reg) if KEY_WITH_REGIONAL_FACTOR else (k_one, b_one)
        V.check("priority_order_key", b is None,
                {"branch": "per_head_table", "kind": "descending_with_factor_1_only" if (b is not None and b_one is None) else "not_descending"},
                lambda: {"position": b, "earlier": order[b], "later": order[b + 1], "key_earlier": keys[b],
                         "key_later": keys[b + 1], "order": order, "keys": keys,
                         "regional_factors": [engine_h.lsu_factor(code, x) for x in order]},
                "serving order is not descending in net kcal gained per slaughter hour")
    else:
        afc = [T["attrs"][typ]["afc"] for typ in order]
        if all(afc[i] >= afc[i + 1] for i in range(n - 1)):
            bump("fallback_order_descending_feed_conversion")
        else:
            bump("fallback_order_other")

    feed_in, grass_in = run["feed"], run["grass"]
    for m in range(N):
        cs = t.calls[m * n:(m + 1) * n]
        # the month's deliveries as decided by the simulator reach the first species
        if cs and (cs[0][2] != grass_in[m] or cs[0][3] != feed_in[m]):
            bump("first_call_supply_differs_from_delivery")
        unsat_any = None  # earliest species left unsatisfied this month (feed is usable by all)
        unsat_rum = None  # earliest ruminant left unsatisfied
        tot_g = tot_f = 0.0
        for pos, c in enumerate(cs):
            typ, _rarg, g0, f0, R, herd_call, fed_before, g1, f1, B1, fed = c
            h = t.herds[pos]
            herd = float(h["population"][m])
            if herd != herd_call:
                bump("herd_at_call_differs_from_population_list")
            ref_R = engine_h.ne_per_head(code, typ) * herd
            # the requirement the code works with must be the species' requirement: LSU x energy per
            # livestock unit x regional factor of THIS country x herd (read from the tables by the harness)
            check("requirement_matches_tables", abs(ref_R - R) <= 1e-9 * max(ref_R, R) + 1e-15,
                  {},
                  lambda: {"month": m, "animal_type": typ, "herd": herd, "requirement_used": R, "requirement_from_tables": ref_R},
                  "the energy requirement used for a species differs from LSU x energy per LSU x regional factor x herd")
            g, f = g0 - g1, f0 - f1
            tot_g += g
            tot_f += f
            # a few ulps of the SUPPLY: what is left of a pool is a difference of large values, and the pool a
            # later species sees may already carry the rounding residue (e.g. -9e-13) of an earlier species'
            # consumption, so the scale is this month's delivery, not the (possibly tiny) pool at call time
            tolS = 16 * EPS * (abs(g0) + abs(f0) + abs(float(grass_in[m])) + abs(float(feed_in[m])))
            tolE = 1e-9 * R + tolS
            delivered = engine_h.EFF_GRASS * g + engine_h.EFF_FEED * f
            met = delivered >= R - tolE
            tolH = herd * tolE / R if R > 0 else 0.0
            # label of the code path taken (identity only; the verdicts below use `met`, not the label):
            # NE_balance left at exactly 0 = one of the two "requirement covered" paths, otherwise the
            # "feed as much as possible" path - also when the shortfall is only a rounding error.
            if R == 0:
                branch = "zero_requirement_stale" if fed_before != 0 else "zero_requirement"
            elif B1 == 0:
                branch = "fully_fed_grass" if f <= tolS else "fully_fed_feed"
            elif delivered <= tolE:
                branch = "unfed"
            else:
                branch = "partially_fed"
            if met and R > 0 and B1 != 0:
                bump("met_within_tolerance_but_partial_path")
            bump("branch_" + branch)
            ident = {"branch": branch, "digestion": "ruminant" if rum[pos] else "non_ruminant"}

            def wit():
                return {"month": m, "position": pos, "animal_type": typ, "herd": herd, "requirement": R,
                        "grass_before": g0, "grass_after": g1, "feed_before": f0, "feed_after": f1,
                        "delivered_net_energy": delivered, "fraction_delivered": (delivered / R) if R > 0 else None,
                        "NE_balance_after": B1, "population_fed": fed, "population_fed_before_call": fed_before,
                        "starving_appended": float(h["population_starving_pre_slaughter"][m + 1])}

            if g < -tolS or f < -tolS:
                bump("negative_consumption")
            check("used_le_supplied_call", g1 >= -tolS and f1 >= -tolS, ident, wit, "more consumed than was available")
            check("ne_le_requirement", delivered <= R + tolE, ident, wit, "more net energy delivered than required")
            if not rum[pos]:
                check("grass_only_ruminants", g == 0.0, ident, wit, "a non-ruminant consumed grass")
            # strict priority: consuming while an earlier species that can use the same supply went short
            bad_f = f > tolS and unsat_any is not None
            bad_g = g > tolS and unsat_rum is not None
            check("strict_priority", not (bad_f or bad_g), dict(ident, supply="feed" if bad_f else "grass"),
                    lambda: dict(wit(), earlier_unsatisfied=order[unsat_any if bad_f else unsat_rum]),
                    "a species was served although an earlier species of the serving order was left short")
            if not met:
                if unsat_any is None:
                    unsat_any = pos
                if rum[pos] and unsat_rum is None:
                    unsat_rum = pos
            # counting heads
            check("fed_le_herd", fed <= herd + 0.5 + tolH, ident, wit, "more animals counted as fed than the herd holds")
            if met:
                ok = abs(fed - herd) <= 0.5 + tolH
            else:
                ok = fed < herd - tolH or herd * (1 - delivered / R) < 1 + tolH
            check("fed_eq_herd_iff_met", ok, ident, wit,
                    "fed count equals the herd although the requirement was not met" if not met else
                    "fed count differs from the herd although the requirement was met")
            expected_fed = herd if met else herd * delivered / R
            if not met:
                V.resid("fed_fraction", abs(fed - expected_fed) / max(herd, 1.0))
                check("fed_fraction", abs(fed - expected_fed) <= 1 + tolH, ident,
                        lambda: dict(wit(), expected_fed=expected_fed), "fed count is not herd x delivered / required")
            starving = float(h["population_starving_pre_slaughter"][m + 1])
            check("starving_remainder", abs(starving - (herd - expected_fed)) <= 1 + tolH, ident,
                    lambda: dict(wit(), expected_starving=herd - expected_fed),
                    "starving count of the month is not herd - fed")
            check("starving_nonneg", starving >= -0.5 - tolH, ident, wit, "starving count of the month is negative")
        # month totals
        tolM = 16 * EPS * (abs(feed_in[m]) + abs(grass_in[m])) * max(1, n)
        fu, gu = float(t.feed_used[m]), float(t.grass_used[m])
        check("used_le_supplied_month", fu <= feed_in[m] + tolM and gu <= grass_in[m] + tolM, {"branch": "month_total"},
                {"month": m, "feed_used": fu, "feed_delivered": feed_in[m], "grass_used": gu, "grass_delivered": grass_in[m]},
                "monthly use exceeds the month's delivery")
        if abs(fu - tot_f) > tolM + 1e-12 * abs(fu) or abs(gu - tot_g) > tolM + 1e-12 * abs(gu):
            bump("reported_use_differs_from_sum_of_calls")
        if fu < -tolM or gu < -tolM:
            bump("negative_monthly_use")


def execute(spec):
    return engine_h.execute(spec, ID, monitor)


shrink = engine_h.shrink
