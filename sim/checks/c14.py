"""C14 - a run's result depends only on its own inputs.

History = sequence of public calls in ONE process:
    ScenarioRunnerNoTrade().run_model_no_trade(scenario_option=..., countries_list=[1-4 codes],
                                               return_results=True)
    (world jobs: set_depending_on_option + run_and_analyze_scenario, as the manuscript script does)
with repetition, same-country/other-scenario adjacency, shared titles, aborted jobs (solver,
write, table-read faults, crash at the n-th source line) and clock events in between.
Oracle: for every clean job, digest(result in history) == digest(same job alone in a process
that has run nothing), bit-exact; the digest of every returned object is taken again at the
end of the history and must be unchanged.
Reference processes: a forked child of the (imported, idle) parent; and, for a sample (quick)
or all (thorough) histories, one job re-run in a true fresh interpreter under a skewed
environment (PYTHONHASHSEED, TZ, LC_ALL).
"""

import json
import os
import subprocess
import sys

from .. import core, engine_p, workload, world

ID = "C14"
LEVEL = "exploration"
MAIN_CLAUSES = ["same_as_alone", "unchanged_at_end"]
RULE = (
    "history = seeded sequence of 3-7 public run_model_no_trade / world calls (1-4 countries per call) in one "
    "process with seeded faults; a case = one (country, scenario) result compared bit-exactly with the same job run "
    "alone; non-trivial = the history has >=2 distinct jobs before or after the compared job; distinct = distinct "
    "(history-prefix digest, job digest, fault positions)"
)
ASSUMPTIONS = [
    "CBC binary is deterministic for a given MPS file (verified by the repeat clause itself)",
    "reference 'alone' = forked child of a parent that imported the model and ran nothing; validated on a sample "
    "against true fresh interpreters with other PYTHONHASHSEED/TZ/locale/cwd",
    "a job hit by a line-level abort or a torn table read is not a comparison subject (only the clean jobs around it); "
    "a job that returns a result although it met any other fault (solver failure, I/O error, slow solver, clock jump) "
    "must return the result of the same job run alone",
]
COMPONENTS = {
    "real": ["option dispatch", "Parameters", "Optimizer", "PuLP", "CBC binary", "Extractor/Interpreter/Validator",
             "herd simulator", "run_model_no_trade coordinator", "pandas CSV writes (to a scratch results dir)"],
    "simulated": ["wall clock", "fault injection at solver / write / table-read seams", "line-level crash"],
    "stub": [],
}
TIERS = {
    "quick": {"histories": 40, "budget_s": 170, "timeout": 1500, "shrink_s": 200},
    "thorough": {"histories": 400, "budget_s": 2400, "timeout": 1800, "shrink_s": 600},
}

ENVS = [
    {"PYTHONHASHSEED": "1", "TZ": "Pacific/Kiritimati", "LC_ALL": "C"},
    {"PYTHONHASHSEED": "12345", "TZ": "America/St_Johns", "LC_ALL": "C.UTF-8"},
    {"PYTHONHASHSEED": "random", "TZ": "UTC", "LC_ALL": "POSIX"},
]


def prepare():
    world.setup_repo()


def _call(rng, profile):
    """One public call: 1-4 countries with one option dictionary, or a world job."""
    if rng.chance(0.08):
        j = workload.random_job(rng, profile, world_p=1.0, overrides_p=0.2, horizon=rng.pick([48, 72, 120]))
        return j
    j = workload.random_job(rng, profile, world_p=0.0, overrides_p=0.25, horizon=rng.pick([48, 72, 96, 120]))
    n = rng.pick([1, 1, 1, 2, 2, 3, 4])
    if rng.chance(0.15):
        # bias towards the branch the code special-cases: a "known to fail" country with the options that
        # trigger its scenario rewrite, in one call (one shared option dictionary) with other countries
        j["iso3"] = rng.pick(["SLV", "ALB", "SLV", "ALB", "ECU"])
        o = j["options"]
        o.update(cull="do_eat_culled", scenario=rng.pick(["all_resilient_foods", "seaweed"]),
                 shutoff=rng.pick(["continued", "long_delayed_shutoff", "short_delayed_shutoff"]))
        if j["iso3"] == "ECU":
            o.update(shutoff="long_delayed_shutoff", meat_strategy="feed_only_ruminants",
                     crop_disruption=rng.pick(["zero"]), ratio_stocks_untouched=rng.pick(["zero", "baseline"]))
        n = rng.pick([2, 3, 4])
    cs = [j["iso3"]]
    while len(cs) < n:
        c = workload.pick_country(rng)
        if c not in cs:
            cs.append(c)
    j["countries"] = cs
    return j


def _yaml_call(rng, profile):
    """A run_scenarios_from_yaml call: 2-3 simulations x 1-2 countries (the shipped YAML driver loop,
    which writes NMONTHS into each simulation dictionary and re-uses one countries list)."""
    n_sim = 2 + rng.randrange(2)
    horizon = rng.pick([48, 72, 120])
    sims = {}
    for i in range(n_sim):
        j = workload.random_job(rng, profile, world_p=0.0, overrides_p=0.2, horizon=horizon)
        o = dict(j["options"])
        del o["NMONTHS"]
        o["title"] = "yaml sim %d" % (i if rng.chance(0.7) else 0)
        sims["sim_%d" % i] = o
    cs = []
    while len(cs) < 1 + rng.randrange(2):
        c = workload.pick_country(rng)
        if c not in cs:
            cs.append(c)
    countries = cs[0] if len(cs) == 1 and rng.chance(0.5) else cs
    return {"kind": "yaml", "iso3": "YAML", "config": {"settings": {"countries": countries, "NMONTHS": horizon}, "simulations": sims}}


def _fault(rng):
    seam = rng.pick(["solve", "solve", "write", "read", "abort", "clock", "time", "time"])
    if seam == "time":
        # harmless by themselves: a solve that takes minutes to hours of wall time, or a wall clock that steps forwards /
        # backwards while a solve runs. The job must return exactly what it returns alone
        return {"seam": "solve", "at": rng.randrange(9), "kind": rng.pick(["slow", "slow", "clock:86400", "clock:-7200", "clock:600"])}
    if seam == "solve":
        return {"seam": "solve", "at": rng.randrange(9), "kind": rng.pick(["exec", "status:-1", "status:0", "status:-2", "slow", "iterate:-1", "iterate:0"])}
    if seam == "write":
        return {"seam": "write", "at": rng.randrange(3), "kind": rng.pick(["enospc", "eio", "eacces", "short"]), "k": rng.randrange(400)}
    if seam == "read":
        if rng.chance(0.3):
            return {"seam": "read", "name": "FAOSTAT_head_and_slaughter.csv", "nth": rng.pick([0, 0, 1, 2]), "kind": "truncated"}  # torn read of the head-count table
        return {"seam": "read", "at": rng.randrange(15), "kind": rng.pick(["enoent", "eio", "parse", "truncated"])}
    if seam == "abort":
        return {"seam": "abort", "at": 1 + int(10 ** rng.uniform(1, 6.4))}
    return {"seam": "clock", "at": rng.randrange(6), "kind": "jump", "seconds": rng.pick([-86400 * 400, -3600, 59, 3600, 86400 * 31])}


def generate(seed, h, tier):
    rng = core.Rng(seed, "C14", h)
    wl = rng.sub("workload")
    profile = workload.swarm_profile(wl)
    n = 3 + wl.randrange(5)
    calls = []
    for i in range(n):
        r = wl.random()
        if calls and r < 0.2:
            calls.append(workload.clone(wl.pick(calls)))  # exact repetition
        elif calls and r < 0.4:
            prev = wl.pick(calls)  # same countries, another scenario
            c = _call(wl, profile)
            if prev["iso3"] not in ("WOR", "YAML") and c["iso3"] != "WOR":
                c["iso3"], c["countries"] = prev["iso3"], list(prev["countries"])
            calls.append(c)
        elif r < 0.55:
            calls.append(_yaml_call(wl, profile))
        else:
            calls.append(_call(wl, profile))
    for i, c in enumerate(calls):
        c["tag"] = i
        if c.get("kind") != "yaml" and wl.chance(0.5):
            c["title"] = "shared"
    fr = rng.sub("faults")
    faults = {}
    if fr.chance(0.55):
        for _ in range(1 + fr.randrange(2)):
            faults[str(fr.randrange(n))] = [_fault(fr)]
    er = rng.sub("env")
    fresh = None
    if tier == "thorough" or er.chance(0.5):
        # every unit job of one call, each alone in a true fresh interpreter whose hash seed (set / dict order of
        # strings), time zone and locale differ from this process's
        env = dict(er.pick(ENVS))
        if er.chance(0.6):
            env["PYTHONHASHSEED"] = str(1 + er.randrange(2 ** 31 - 1))
        fresh = {"call": er.randrange(n), "env": env, "all_units": True}
    return {"h": h, "calls": calls, "faults": faults, "fresh": fresh}


def unit_jobs(call):
    """The (country, scenario) units of a call, each runnable alone."""
    if call.get("kind") == "yaml":
        cfg = call["config"]
        cs = cfg["settings"]["countries"]
        cs = [cs] if isinstance(cs, str) else cs
        out = []
        for _name, sim in cfg["simulations"].items():
            o = dict(sim)
            o["NMONTHS"] = cfg["settings"]["NMONTHS"]
            for c in cs:
                out.append({"iso3": c, "countries": [c], "options": o, "title": sim["title"]})
        return out
    if call["iso3"] == "WOR":
        return [{"iso3": "WOR", "options": call["options"], "title": call.get("title", "untitled")}]
    return [
        {"iso3": c, "countries": [c], "options": call["options"], "title": call.get("title", "untitled")}
        for c in call["countries"]
    ]


def _names():
    return {r["iso3"]: r["country"] for r in workload.table_rows()}


def _run_alone(job):
    """Runs in a fresh fork of the idle parent: the job alone."""
    d = world.enter_history("alone-%d" % os.getpid())
    log = core.EventLog()
    try:
        with engine_p.Sim(core.Rng(0, "alone"), log, capture=False) as sim:
            t = sim.run_job(job)
        return {"status": t.status, "digest": t.digest, "error": getattr(t, "error_msg", None)}
    finally:
        world.leave_history(d)


def alone_main(rest):
    """Entry of the true fresh interpreter: check _alone <job.json>; prints one JSON line."""
    with open(rest[0]) as f:
        job = json.load(f)
    world.setup_repo()
    r = _run_alone(job)
    print("ALONE-RESULT " + json.dumps(r))
    return 0


def fresh_interpreter(job, env):
    import tempfile

    e = dict(os.environ)
    for k in ("PYTHONHASHSEED", "TZ", "LC_ALL"):
        e[k] = env[k]
    e["PYTHONDONTWRITEBYTECODE"] = "1"
    fd, path = tempfile.mkstemp(prefix="verif-job-", suffix=".json")
    with os.fdopen(fd, "w") as f:
        json.dump(job, f)
    try:
        p = subprocess.run(
            [sys.executable, os.path.join(core.VERIF_DIR, "sim", "cli.py"), "_alone", path],
            env=e, cwd=core.VERIF_DIR, capture_output=True, text=True, timeout=300,
        )
    finally:
        os.unlink(path)
    for line in p.stdout.splitlines():
        if line.startswith("ALONE-RESULT "):
            return json.loads(line[len("ALONE-RESULT "):])
    return {"status": "harness", "digest": None, "error": (p.stderr or p.stdout)[-800:]}


class _YamlTrace:
    pass


def _run_yaml(sim, call, faults, names):
    """Runs the shipped YAML driver loop on an in-memory config; a spy on run_model_no_trade
    collects what each iteration returned (the driver itself returns nothing)."""
    import copy

    m = world.mods()
    got = []
    orig = m.rmnt.ScenarioRunnerNoTrade.run_model_no_trade

    def spy(self, *a, **k):
        out = orig(self, *a, **k)
        got.append(out[3])
        return out

    m.rmnt.ScenarioRunnerNoTrade.run_model_no_trade = spy
    try:
        cfg = copy.deepcopy(call["config"])
        status, _v, err = engine_p.run_callable(sim, call.get("tag"), lambda: m.rsfy.run_scenarios_from_yaml(cfg, False, False, True), faults)
    finally:
        m.rmnt.ScenarioRunnerNoTrade.run_model_no_trade = orig
    t = _YamlTrace()
    t.status, t.error, t.error_msg, t.results, t.result = status, err, err, {}, None
    cs = call["config"]["settings"]["countries"]
    cs = [cs] if isinstance(cs, str) else cs
    t.unit_results = []
    for si, _sim in enumerate(call["config"]["simulations"]):
        for c in cs:
            r = got[si].get(names[c]) if si < len(got) else None
            t.unit_results.append(r)
    return t


def execute(spec):
    names = _names()
    calls = spec["calls"]
    # ---- references first, while this process has not run anything
    units = {}
    for c in calls:
        for u in unit_jobs(c):
            units.setdefault(core.digest(u), u)
    keys = sorted(units)
    refs = {}
    for k, (st, val) in zip(keys, core.run_forked([units[k] for k in keys], _run_alone, workers=2, timeout=300)):
        refs[k] = val if st == "ok" else {"status": "harness:" + st, "digest": None, "error": str(val)[-500:]}
    fresh_out = []
    if spec.get("fresh"):
        c = calls[spec["fresh"]["call"] % len(calls)]
        us = unit_jobs(c)
        if not spec["fresh"].get("all_units"):
            us = us[:1]
        seen_u = set()
        for u in us[:4]:
            if core.digest(u) in seen_u:
                continue
            seen_u.add(core.digest(u))
            fresh_out.append((core.digest(u), fresh_interpreter(u, spec["fresh"]["env"])))

    # ---- the history itself
    rng = core.Rng("C14-exec", spec["h"])
    log = core.EventLog()
    d = world.enter_history("c14-%s" % spec["h"])
    violations, nontrivial = [], []
    clauses = {"same_as_alone": 0, "unchanged_at_end": 0, "fresh_interpreter_same": 0}
    statuses, faults_fired = {}, {}
    kept = []  # (unit key, interp, digest at return, call index)
    sim_months = 0
    try:
        with engine_p.Sim(rng, log, capture=False) as sim:
            for i, c in enumerate(calls):
                fl = spec["faults"].get(str(i))
                if c.get("kind") == "yaml":
                    t = _run_yaml(sim, c, fl, names)
                else:
                    t = sim.run_job(c, faults=fl)
                statuses[t.status.split(":")[0]] = statuses.get(t.status.split(":")[0], 0) + 1
                faulty = bool(fl)
                if t.status != "ok":
                    us = unit_jobs(c)
                    rs = [refs[core.digest(u)] for u in us]
                    if not faulty and all(r["status"] == "ok" for r in rs):
                        # every unit of this clean call completes alone, yet the call failed here
                        clauses["same_as_alone"] += 1
                        violations.append(core.Violation(
                            ID, "same_as_alone", {"kind": "fails_in_history_only", "iso3": c["iso3"]},
                            {"call_index": i, "status_in_history": t.status, "error": getattr(t, "error_msg", t.error),
                             "countries": c.get("countries")},
                            "call completes when its jobs run alone but fails after other jobs").to_json())
                    continue
                survived = None
                if faulty:
                    if any(f["seam"] == "abort" or f.get("kind") == "truncated" for f in fl):
                        # a line-level abort swallowed by the code's own broad handlers, or a torn read nobody can
                        # notice: the job's own business (see DESIGN 5/C14)
                        continue
                    # any other fault is fail-stop or harmless (slow solver, clock jump): a call that RETURNS a result
                    # must return the result of the same call run alone
                    survived = "+".join(sorted("%s:%s" % (f["seam"], str(f.get("kind", "")).split(":")[0]) for f in fl))
                if c.get("kind") == "yaml":
                    sim_months += 3 * c["config"]["settings"]["NMONTHS"] * len(unit_jobs(c))
                    for u, interp in zip(unit_jobs(c), t.unit_results):
                        k = core.digest(u)
                        ref = refs[k]
                        if interp is None or ref["status"].startswith("harness"):
                            continue
                        dg = engine_p.result_digest(interp)
                        kept.append((k, interp, dg, i))
                        clauses["same_as_alone"] += 1
                        clauses["yaml_driver_units"] = clauses.get("yaml_driver_units", 0) + 1
                        nontrivial.append(core.digest([[core.digest(x) for x in calls[:i]], k, spec["faults"], "yaml"]))
                        if ref["status"] != "ok":
                            violations.append(core.Violation(
                                ID, "same_as_alone", {"kind": "succeeds_in_history_only", "iso3": u["iso3"], "via": "yaml"},
                                {"call_index": i, "status_alone": ref["status"]}, "job fails alone but completes inside the YAML driver loop").to_json())
                        elif dg != ref["digest"]:
                            violations.append(core.Violation(
                                ID, "same_as_alone", dict({"kind": "digest_differs", "iso3": u["iso3"], "via": "yaml"},
                                                          **({"survived_own_fault": survived} if survived else {})),
                                {"call_index": i, "digest_in_history": dg, "digest_alone": ref["digest"], "title": u["title"],
                                 "percent_fed_in_history": float(interp.percent_people_fed)},
                                "result inside the YAML driver loop differs from the same run executed alone").to_json())
                    continue
                sim_months += 3 * c["options"]["NMONTHS"] * len(c.get("countries") or [1])
                got = {}
                if c["iso3"] == "WOR":
                    got["WOR"] = t.result
                else:
                    for code in c["countries"]:
                        if names[code] in t.results:
                            got[code] = t.results[names[code]]
                for u in unit_jobs(c):
                    k = core.digest(u)
                    ref = refs[k]
                    interp = got.get(u["iso3"])
                    if interp is None:
                        continue
                    dg = engine_p.result_digest(interp)
                    kept.append((k, interp, dg, i))
                    if ref["status"].startswith("harness"):
                        continue
                    clauses["same_as_alone"] += 1
                    if i >= 2 or len(calls) - i > 2:
                        nontrivial.append(core.digest([[core.digest(x) for x in calls[:i]], k, spec["faults"]]))
                    if ref["status"] != "ok":
                        violations.append(core.Violation(
                            ID, "same_as_alone", {"kind": "succeeds_in_history_only", "iso3": u["iso3"]},
                            {"call_index": i, "status_alone": ref["status"], "error_alone": ref.get("error")},
                            "job fails alone but completes after other jobs").to_json())
                    elif dg != ref["digest"]:
                        violations.append(core.Violation(
                            ID, "same_as_alone", dict({"kind": "digest_differs", "iso3": u["iso3"]},
                                                      **({"survived_own_fault": survived} if survived else {})),
                            {"call_index": i, "digest_in_history": dg, "digest_alone": ref["digest"],
                             "percent_fed_in_history": float(interp.percent_people_fed),
                             "preceding_calls": [[x["iso3"], x.get("countries")] for x in calls[:i]]},
                            "result of a run differs from the same run executed alone").to_json())
            for k, interp, dg, i in kept:
                clauses["unchanged_at_end"] += 1
                if engine_p.result_digest(interp) != dg:
                    violations.append(core.Violation(
                        ID, "unchanged_at_end", {"kind": "result_mutated_later"},
                        {"call_index": i}, "a returned result object was changed by a later run").to_json())
    finally:
        world.leave_history(d)
    for k, fr in fresh_out:
        ref = refs[k]
        if not fr["status"].startswith("harness") and not ref["status"].startswith("harness"):
            clauses["fresh_interpreter_same"] += 1
            if fr["status"] != ref["status"] or fr["digest"] != ref["digest"]:
                violations.append(core.Violation(
                    ID, "same_as_alone", {"kind": "fresh_interpreter_differs", "iso3": units[k]["iso3"]},
                    {"env": spec["fresh"]["env"], "fresh": fr, "fork": ref, "job": units[k]},
                    "result in a fresh interpreter under a skewed environment differs").to_json())
    faults_fired = core.fault_counts(log)
    return {
        "violations": violations,
        "evaluations": clauses["same_as_alone"],
        "nontrivial": nontrivial,
        "clauses": clauses,
        "faults": faults_fired,
        "probes": {"histories_with_faults": 1 if spec["faults"] else 0, "fresh_interpreter_runs": len(fresh_out)},
        "statuses": statuses,
        "log_digest": log.digest(),
        "sim_months": sim_months,
        "aborts": 0,
        "sample": {"calls": [[c["iso3"], c.get("countries"), c["options"].get("scenario"), c["options"]["NMONTHS"], c.get("title")]
                             if c.get("kind") != "yaml" else ["YAML", c["config"]["settings"], list(c["config"]["simulations"])]
                             for c in calls], "faults": spec["faults"], "fresh": spec.get("fresh")},
    }


def shrink(spec):
    calls = spec["calls"]
    n = len(calls)

    def rebuild(keep, faults=None):
        f = spec["faults"] if faults is None else faults
        nf = {}
        for new_i, old_i in enumerate(keep):
            if str(old_i) in f:
                nf[str(new_i)] = f[str(old_i)]
        s = {"h": spec["h"], "calls": [workload.clone(calls[i]) for i in keep], "faults": nf, "fresh": None}
        return s

    if spec.get("fresh"):
        s = dict(spec)
        s["fresh"] = None
        yield s
    for i in range(n):
        if n > 1:
            yield rebuild([j for j in range(n) if j != i])
    if spec["faults"]:
        yield rebuild(list(range(n)), faults={})
    for i, c in enumerate(calls):
        if c.get("countries") and len(c["countries"]) > 1:
            for drop in c["countries"]:
                s = rebuild(list(range(n)))
                s["calls"][i]["countries"] = [x for x in c["countries"] if x != drop]
                s["calls"][i]["iso3"] = s["calls"][i]["countries"][0]
                yield s
        if c.get("kind") == "yaml":
            sims = c["config"]["simulations"]
            if len(sims) > 1:
                for drop in list(sims):
                    s = rebuild(list(range(n)))
                    del s["calls"][i]["config"]["simulations"][drop]
                    yield s
            continue
        if c["options"]["NMONTHS"] > 48:
            s = rebuild(list(range(n)))
            s["calls"][i]["options"]["NMONTHS"] = 48
            yield s
