"""C06 - herd head-count ledger balances every month (engine H).

Observed: the per-species lists returned by animal_populations.main(..., remove_first_month=0).
List alignment (N = months run; established by reading main()/append_month_zero and verified by
the `list_alignment` clause on every run):
    index 0 = month-zero (ex-ante) entry, index m+1 = model month m:
        population, slaughter, other_death_causes_other_than_starving, other_death_starving,
        other_death_total, homekill_*_this_month, total_homekill_this_month,
        population_starving_pre_slaughter                                   -> length N+1
    index m = model month m (no month-zero entry):
        births_animals_month, transfer_population (all herds),
        retiring_milk_animals, transfer_births (dairy herds only)            -> length N
Ledger of model month m (t = m+1):
    population[t] = max(0, population[m] + births[m] + transfers_in[m] - retirements[m]
                           - natural_deaths[t] - slaughter[t] - starvation_deaths[t] - homekill[t])
    transfers_in = transfer_population[m] for a meat herd, 0 for a dairy herd (whose own
    transfer_population carries the same flow with a minus sign: animals leaving);
    retirements = retiring_milk_animals[m] for a dairy herd, 0 otherwise;
    homekill = homekill_healthy + homekill_starving (homekill_other_death are animals already
    counted under natural deaths).
"""

import numpy as np

from .. import core, engine_h, world

ID = "C06"
LEVEL = "exploration"
MAIN_CLAUSES = ["list_alignment", "ledger", "flows_nonneg_finite", "dairy_to_meat_transfer", "labour_budget",
                "slaughter_le_available", "target_floor"]
RULE = (
    "history = 8 (quick) / 24 (thorough) real herd runs main(country, feed, grass, strategy, overrides, "
    "remove_first_month=0, per-head table | None); per run a seeded country (164 + SWT alias + world aggregate), "
    "strategy, horizon 24..120, serving order, optional head-count overrides and explicit monthly feed/grass "
    "deliveries (base k x month-0 need, k in [0,3], shapes, delivery faults lost/half/double/burst/delay/shift/"
    "cutoff/restore); a case = one run; non-trivial = >=2 species, >=24 months and >=1 month in which some herd is "
    "neither fully fed nor entirely unfed; distinct = distinct (country, strategy, horizon, order, overrides, "
    "delivery series); clause counts are taken on non-trivial runs only (violations are reported from all runs)"
)
ASSUMPTIONS = [
    "tolerance 1e-9 relative to the largest term + 1e-6 head",
    "month-zero (ex-ante) list entries are not months of the horizon: their sign is counted as a probe, not judged",
    "labour capacity of a size class = sum over its herds of baseline_slaughter (the model's own state) x "
    "animal_slaughter_hours (read from species_attributes.csv by the harness)",
    "'at/above target before' is read at the slaughter step: head count after births, transfers, retirements and "
    "natural deaths, before slaughter; target = target_population_fraction (species_options.csv) x month-zero head",
    "a meat herd without a dairy herd of the same species must receive no transfers; a dairy herd without a meat "
    "herd (India's cattle, zeroed herds) is outside the transfer clause",
    "runs that end in one of the model's own assertions (e.g. 'transfer pop is greater than population' under "
    "head-count overrides) are aborts without a verdict and are counted",
]
COMPONENTS = {
    "real": ["animal_populations.main and everything it calls (AnimalSpecies, AnimalPopulation, AnimalModelBuilder, "
             "CountryData)", "the five shipped herd tables, parsed by the real readers (once per child process, then "
             "served as copies)", "Food"],
    "simulated": ["monthly feed and grass deliveries (the environment of the monthly loop) incl. delivery faults",
                  "head-count overrides through the documented <species>_head_start keys"],
    "stub": [],
}
TIERS = {
    "quick": {"histories": 960, "runs": 8, "budget_s": 600, "timeout": 240, "batch": 160, "shrink_s": 40},
    "thorough": {"histories": 3000, "runs": 24, "budget_s": 840, "timeout": 300, "batch": 250, "shrink_s": 60},
}

MAX_REPORTS = 12
SHRINK_EACH_IDENTITY = True
ABS, REL = 1e-6, 1e-9


def prepare():
    world.setup_repo()
    engine_h.tables()


def generate(seed, h, tier):
    return engine_h.generate(seed, ID, h, TIERS[tier]["runs"])


def _first(mask):
    i = np.where(mask)[0]
    return int(i[0]) if len(i) else None


def monitor(t, V):
    T = engine_h.tables()
    N = t.months
    strat = t.run["strategy"]
    herds = {h["type"]: h for h in t.herds}
    probes = t.probes = getattr(t, "probes", {})
    usable = {}
    for h in t.herds:
        typ = h["type"]
        milk = typ.startswith("milk_")
        a = T["attrs"][typ]
        ident = {"function": "milk" if milk else "meat", "size": a["size"]}
        want = {"population": N + 1, "slaughter": N + 1, "other_death_causes_other_than_starving": N + 1,
                "other_death_starving": N + 1, "other_death_total": N + 1, "homekill_healthy_this_month": N + 1,
                "homekill_starving_this_month": N + 1, "homekill_other_death_this_month": N + 1,
                "births_animals_month": N, "transfer_population": N}
        if milk:
            want.update({"retiring_milk_animals": N, "transfer_births": N})
        got = {k: (None if h[k] is None else len(h[k])) for k in want}
        if V.check("list_alignment", got == want, ident, {"animal_type": typ, "expected": want, "got": got},
                   "returned list lengths do not match the month-zero convention"):
            usable[typ] = (h, ident, milk, a)

    size_used = {}
    size_cap = {}
    size_hours = {}
    for typ, (h, ident, milk, a) in usable.items():
        pop = h["population"]
        births = h["births_animals_month"]
        zeros = np.zeros(N)
        tin = zeros if milk else h["transfer_population"]
        ret = h["retiring_milk_animals"] if milk else zeros
        nat = h["other_death_causes_other_than_starving"][1:]
        sl = h["slaughter"][1:]
        starv = h["other_death_starving"][1:]
        hk = h["homekill_healthy_this_month"][1:] + h["homekill_starving_this_month"][1:]
        terms = [pop[:-1], births, tin, ret, nat, sl, starv, hk]
        with np.errstate(all="ignore"):
            scale = np.max(np.abs(np.array(terms)), axis=0)
            tol = REL * scale + ABS
            raw = pop[:-1] + births + tin - ret - nat - sl - starv - hk
            expect = np.maximum(0.0, raw)
            resid = np.abs(pop[1:] - expect)
            bad = ~(resid <= tol)

        def terms_at(m):
            return {"animal_type": typ, "month": m, "start": pop[m], "births": births[m], "transfers_in": tin[m], "retirements": ret[m],
                    "natural_deaths": nat[m], "slaughter": sl[m], "starvation_deaths": starv[m], "homekill": hk[m],
                    "end_expected": expect[m], "end_reported": pop[m + 1]}

        # ---- ledger
        V.ev("ledger", N)
        probes["ledger_months_clamped_at_zero"] = probes.get("ledger_months_clamped_at_zero", 0) + int((raw < -tol).sum())
        probes["ledger_months_herd_empty"] = probes.get("ledger_months_herd_empty", 0) + int((pop[1:] == 0).sum())
        probes["ledger_months_with_starvation_deaths"] = probes.get("ledger_months_with_starvation_deaths", 0) + int((starv > 0).sum())
        if np.isfinite(resid).all():
            V.resid("ledger", float(np.max(resid / np.maximum(scale, 1.0))))
        m = _first(bad)
        if m is not None:
            V.fail("ledger", dict(ident, branch="clamped_at_zero" if raw[m] < 0 else "balance"), terms_at(m),
                   "end-of-month head count differs from start + births + transfers - retirements - deaths - slaughter")
        # ---- signs and finiteness of head counts and flows (months of the horizon)
        has_dairy = any(engine_h.DAIRY_PAIRS.get(k) == typ for k in herds)
        flows = [("head_count", pop), ("births", births), ("natural_deaths", nat), ("slaughter", sl),
                 ("starvation_deaths", starv), ("homekill_healthy", h["homekill_healthy_this_month"][1:]),
                 ("homekill_starving", h["homekill_starving_this_month"][1:]),
                 ("homekill_other_death", h["homekill_other_death_this_month"][1:])]
        if milk:
            flows += [("retirements", ret), ("surviving_male_calves", h["transfer_births"])]
        else:
            flows += [("transfers_in", tin)]
        for name, arr in flows:
            V.ev("flows_nonneg_finite", len(arr))
            with np.errstate(all="ignore"):
                neg = ~(arr >= -ABS)
                nonfin = ~np.isfinite(arr)
            m = _first(nonfin)
            if m is not None:
                V.fail("flows_nonneg_finite", dict(ident, flow=name, kind="not_finite", has_dairy_herd=has_dairy),
                       {"animal_type": typ, "index": m, "value": arr[m]}, "a head count or flow is not finite")
            m = _first(neg & ~nonfin)
            if m is not None:
                V.fail("flows_nonneg_finite", dict(ident, flow=name, kind="negative", has_dairy_herd=has_dairy),
                       {"animal_type": typ, "month": m, "value": arr[m], "first_values": arr[:4], "negative_months": int((neg & ~nonfin).sum()),
                        "ledger": terms_at(min(m, N - 1))},
                       "a head count or flow is negative")
        for name in ("slaughter", "other_death_causes_other_than_starving"):  # month-zero entries: probe only
            if not (h[name][0] >= -ABS):
                k = "month_zero_negative_" + name
                probes[k] = probes.get(k, 0) + 1
        # ---- slaughter <= animals available before slaughter
        with np.errstate(all="ignore"):
            pre = pop[:-1] + births + tin - ret - nat
            over = ~(sl <= np.maximum(pre, 0.0) + tol)
        V.ev("slaughter_le_available", N)
        m = _first(over)
        if m is not None:
            V.fail("slaughter_le_available", dict(ident), dict(terms_at(m), available_before_slaughter=pre[m]),
                   "more animals slaughtered than were available")
        # ---- target floor
        target = T["options"][(strat, typ)]["target_population_fraction"] * pop[0]
        with np.errstate(all="ignore"):
            at_or_above = pre >= target
            below_after = at_or_above & ~((pre - sl) >= target - tol)
        V.ev("target_floor", int(at_or_above.sum()))
        probes["target_floor_months_at_or_above"] = probes.get("target_floor_months_at_or_above", 0) + int(at_or_above.sum())
        probes["target_floor_months_slaughter_cut_to_target"] = probes.get("target_floor_months_slaughter_cut_to_target", 0) + int(
            (at_or_above & (np.abs((pre - sl) - target) <= tol) & (sl > ABS)).sum())
        m = _first(below_after)
        if m is not None:
            V.fail("target_floor", dict(ident, strategy=strat),
                   dict(terms_at(m), before_slaughter=pre[m], after_slaughter=pre[m] - sl[m], target=target),
                   "slaughter took a herd that was at/above target below its target size")
        # ---- labour hours of the size class
        cls = a["size"]
        size_used[cls] = size_used.get(cls, np.zeros(N)) + sl * a["hours"]
        size_cap[cls] = size_cap.get(cls, 0.0) + h["baseline_slaughter"] * a["hours"]
        size_hours[cls] = max(size_hours.get(cls, 0.0), a["hours"])
        if not milk:
            ref = T["stock"][engine_h.table_code(t.run["country"])][engine_h.species_of(typ) + "_slaughter"] / 12.0 * \
                T["options"][(strat, typ)]["change_in_slaughter_rate"]
            if abs(ref - h["baseline_slaughter"]) > REL * abs(ref) + ABS:
                probes["baseline_slaughter_differs_from_table"] = probes.get("baseline_slaughter_differs_from_table", 0) + 1
        elif h["baseline_slaughter"] < 0:
            probes["negative_dairy_baseline_slaughter"] = probes.get("negative_dairy_baseline_slaughter", 0) + 1

    for cls in sorted(size_used):
        used, cap = size_used[cls], size_cap[cls]
        with np.errstate(all="ignore"):
            tol = REL * np.maximum(np.abs(used), abs(cap)) + ABS * size_hours[cls]
            over = ~(used <= cap + tol)
        V.ev("labour_budget", N)
        probes["labour_months_at_capacity"] = probes.get("labour_months_at_capacity", 0) + int((np.abs(used - cap) <= tol).sum())
        m = _first(over)
        if m is not None:
            V.fail("labour_budget", {"size": cls}, {"month": m, "hours_used": used[m], "baseline_capacity_hours": cap,
                                                     "herds": [k for k, v in usable.items() if v[3]["size"] == cls]},
                   "slaughter of a size class used more labour hours than its baseline capacity")

    # ---- dairy -> meat transfer identity
    for typ, (h, ident, milk, a) in usable.items():
        if milk:
            continue
        dairy = next((k for k, v in engine_h.DAIRY_PAIRS.items() if v == typ), None)
        tin = h["transfer_population"]
        if dairy in usable:
            d = usable[dairy][0]
            want = d["retiring_milk_animals"] + d["transfer_births"]
            branch = "both_herds"
        else:
            want = np.zeros(N)
            branch = "no_dairy_herd"
            probes["meat_herds_without_dairy_herd"] = probes.get("meat_herds_without_dairy_herd", 0) + 1
        with np.errstate(all="ignore"):
            bad = ~(np.abs(tin - want) <= REL * np.maximum(np.abs(tin), np.abs(want)) + ABS)
        if branch == "both_herds":
            V.ev("dairy_to_meat_transfer", N)
        else:
            V.ev("no_transfer_without_dairy_herd", N)
        m = _first(bad)
        if m is not None:
            V.fail("dairy_to_meat_transfer", dict(ident, branch=branch),
                   {"animal_type": typ, "month": m, "added_to_meat_herd": tin[m], "retired_plus_surviving_male_calves": want[m], "dairy_herd": dairy},
                   "animals added to the meat herd differ from dairy retirements + surviving male calves")
    for k in herds:
        if k in engine_h.DAIRY_PAIRS and engine_h.DAIRY_PAIRS[k] not in herds:
            probes["dairy_herds_without_meat_herd"] = probes.get("dairy_herds_without_meat_herd", 0) + 1


def execute(spec):
    return engine_h.execute(spec, ID, monitor)


shrink = engine_h.shrink
