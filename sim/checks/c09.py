"""C09 - cropland is neither double-counted nor lost between crops and greenhouses.

Engine P0 (real code up to compute_parameters_first_round, no LP); workload-driven, the only
simulated dimension is the randomised greenhouse / rotation timers.

"Amount grown" is observed in the real OutdoorCrops object between `calculate_monthly_production`
and `set_crop_production_minus_greenhouse_area` (run-time wrappers, engine_p0); the greenhouse fraction
is the array that method receives. The C08 reference calendar model is used for the documented greenhouse
ramp and for attributing deviations to integer truncation.

Clauses
  land_identity            production[m] == grown[m] x (1 - greenhouse fraction[m]) x (1 - distribution waste),
                           every job with greenhouses (grown = relocated series from the month the rotation
                           change takes effect, plain series before / without relocation)
  gh_zero_until_delay      greenhouse fraction is 0 in every month before the configured delay has passed
  gh_monotone_capped       then non-decreasing and <= GREENHOUSE_AREA_MULTIPLIER; area == fraction x cropland
  gh_ramp_documented       documented ramp: delay + 5 months (planting to harvest) of nothing, 36 months of constant
                           expansion, then the configured share; a delay pair shifts the ramp by exactly k months
  relocation_never_lowers  pair (no_resilient_foods, relocated_crops), same country/options/timers: month by month
  expansion_never_lowers   pair (all_resilient_foods, all_resilient_foods_and_more_area)
  no_quantisation          floating dtype; the series must not sit on the integer lattice when the amount grown
                           x (1 - fraction) does not (outdoor crops and greenhouse crops); engine-P slice: what each
                           round's optimiser is handed equals, bit for bit, what the parameter computation returned
                           (nothing rounds or truncates on the way, retry paths after solver faults included)

Attribution: when a deviation of land_identity / a pair clause is explained exactly by integer
truncation of the series, it is reported by no_quantisation (and by the pair clause with
cause=integer_truncation), not a second time as a land-accounting failure; any other deviation
in the same branch still alarms.
"""

import numpy as np

from .. import core, engine_p0, workload, world
from . import c08

ID = "C09"
LEVEL = "exploration"
MAIN_CLAUSES = ["land_identity", "gh_zero_until_delay", "gh_monotone_capped", "gh_ramp_documented",
                "relocation_never_lowers", "expansion_never_lowers", "no_quantisation"]
RULE = (
    "history = 13 engine-P0 jobs in one process: 4 seeded base jobs biased to scenarios with greenhouses / relocation "
    "and to small countries, a relocation pair (no_resilient_foods vs relocated_crops) and an expansion pair "
    "(all_resilient_foods vs all_resilient_foods_and_more_area) on the same country/options/timers, a greenhouse delay "
    "pair, 3 small-country jobs (LUX, BRB, MLT, SGP, ...) with greenhouses/relocation; a case = one job whose outdoor "
    "series, observed amount grown and greenhouse fraction are compared; non-trivial = greenhouses or relocation "
    "switched on and outdoor growing on; distinct = distinct (row digest, option vector, horizon, timers). Every 8th "
    "history is an engine-P history instead: 2-3 full three-round jobs under solver faults (half of them), where the crop "
    "series every optimiser is handed are compared exactly with copies taken when the parameter computation returned "
    "them (no_quantisation, where=between_computation_and_optimiser)"
)
ASSUMPTIONS = [
    "the code applies (1 - distribution waste) after the land factor; the identity is checked with that factor",
    "'amount grown' = OutdoorCrops.KCALS_GROWN / NO_RELOCATION_KCALS_GROWN observed between the two methods; its "
    "agreement with the C08 reference calendar model is counted as a probe (a disagreement is C08's finding, not C09's)",
    "'zero until its delay has passed' is decided on months < GREENHOUSE_MONTHS; the further 5 planting-to-harvest months "
    "belong to the documented ramp clause",
    "tolerance 1e-12 relative; pair clauses allow 1e-12 relative below the partner",
    "generated baselines 'down to fractions of a billion kcal' are reached through the smallest countries of the table "
    "and crop_kcals overrides; the food_system classes are not called directly (not applicable to this technique)",
]
COMPONENTS = engine_p0.components()
try:
    from .. import pcheck as _pc

    _pcomp = _pc.components()
    COMPONENTS = {k: list(COMPONENTS.get(k, [])) + ["(engine-P slice) " + x for x in _pcomp.get(k, []) if x not in COMPONENTS.get(k, [])]
                  for k in set(COMPONENTS) | set(_pcomp)}
except Exception:  # pragma: no cover
    pass
TIERS = {
    "quick": {"histories": 256, "budget_s": 60, "timeout": 240, "batch": 64, "shrink_s": 20},
    "thorough": {"histories": 4800, "budget_s": 780, "timeout": 300, "batch": 320, "shrink_s": 45},
}
SHRINK_EACH_IDENTITY = True
MAX_REPORTS = 12
RTOL = 1e-12

GH_SCENARIOS = ["greenhouse", "all_resilient_foods", "all_resilient_foods_and_more_area"]
LAND_SCENARIOS = GH_SCENARIOS + ["relocated_crops"]

close, worst = c08.close, c08.worst


def prepare():
    world.setup_repo()
    engine_p0.country_rows()


def _wit(r, **kw):
    d = {"job": r.job.get("tag"), "iso3": r.job["iso3"], "role": r.job.get("role"), "nmonths": r.N,
         "scenario": r.job["options"].get("scenario"), "crop_disruption": r.job["options"].get("crop_disruption"),
         "timers": r.timers_applied}
    d.update(kw)
    return d


explained_by_truncation = c08.is_truncation_of


# =========================================================================== per-job clauses
def check_job(r, V):
    ci, n = r.inputs, r.N
    obs = r.obs
    branch = engine_p0.branch_of(ci)
    prod = r.series["outdoor_crops"]
    keep = 1 - ci["WASTE_DISTRIBUTION"]["CROPS"] / 100
    ref = c08.reference(ci, r.time_inputs)
    if ref is None or prod.size != n:
        return False
    has_gh = bool(ci["ADD_GREENHOUSES"])
    outdoor = bool(ci["ADD_OUTDOOR_GROWING"])

    # ---- greenhouse fraction: timers and ramp
    f = obs.get("gh_fraction")
    if f is None or f.size != n:
        V.check("gh_monotone_capped", False, {"kind": "fraction_not_one_per_month"}, _wit(r, length=None if f is None else int(f.size)),
                "greenhouse fraction does not have one value per month")
        return False
    if has_gh:
        delay = ci["DELAY"]["GREENHOUSE_MONTHS"]
        share = ci["GREENHOUSE_AREA_MULTIPLIER"]
        V.check("gh_zero_until_delay", not f[:delay].any(), {"kind": "area_before_delay"},
                lambda: _wit(r, delay=delay, month=int(np.nonzero(f[:delay])[0][0])), "greenhouse area before its delay has passed")
        inc = np.diff(f)
        V.check("gh_monotone_capped", bool((inc >= -RTOL * share).all()), {"kind": "decreasing"},
                lambda: _wit(r, month=int(np.argmin(inc)) + 1), "greenhouse fraction decreases")
        V.check("gh_monotone_capped", bool((f >= 0).all() and (f <= share * (1 + RTOL)).all()), {"kind": "above_configured_share"},
                lambda: _wit(r, max_fraction=float(f.max()), configured=share), "greenhouse fraction above the configured share of cropland")
        area, total = obs.get("gh_area"), obs.get("total_crop_area")
        if area is not None and total:
            V.check("gh_monotone_capped", close(area, f * total), {"kind": "area_vs_fraction"},
                    lambda: _wit(r, month=worst(area, f * total)[0]), "greenhouse area is not fraction x cropland")
        want = ref["_gh_fraction"]
        V.resid("gh_ramp", worst(f, want)[1] if want.any() else 0.0)
        V.check("gh_ramp_documented", close(f, want), {"kind": "ramp"},
                lambda: _wit(r, month=worst(f, want)[0], code=float(f[worst(f, want)[0]]), documented=float(want[worst(f, want)[0]]),
                             delay=delay, first_nonzero_month=c08.first_nonzero(f)),
                "greenhouse fraction differs from: nothing for delay + 5 months, 36 months of constant expansion, then the configured share")
    else:
        V.check("gh_zero_until_delay", not f.any(), {"kind": "area_without_greenhouses"}, _wit(r), "greenhouse area although greenhouses are off")

    if not outdoor:
        V.check("land_identity", not prod.any(), {"branch": branch, "kind": "output_without_outdoor_growing"}, _wit(r),
                "outdoor output although outdoor growing is off")
        return has_gh
    grown_r, grown_p = obs.get("grown_at_seam"), obs.get("grown_no_relocation_at_seam")
    if grown_r is None:
        return False
    relocation = bool(ci["OG_USE_BETTER_ROTATION"])
    if relocation:
        change = ci["INITIAL_HARVEST_DURATION_IN_MONTHS"] + ci["DELAY"]["ROTATION_CHANGE_IN_MONTHS"]
        grown = np.where(np.arange(n) >= change, grown_r, grown_p)
    else:
        grown = grown_p
    # "amount grown" is the real object's own series; whether it follows the calendar is C08's question, not
    # C09's. A disagreement with the C08 reference is only counted (probe), never alarmed here.
    V.resid("grown_vs_reference", worst(grown, ref["_grown"])[1])
    if not close(grown, ref["_grown"]):
        r.obs["grown_differs_from_calendar_model"] = True

    # ---- land identity
    before_waste = grown * (1 - f)
    want = before_waste * keep
    if has_gh:
        i, rel = worst(prod, want)
        if close(prod, want):
            verdict = None
            V.resid("land_identity", rel)
        elif explained_by_truncation(prod, before_waste, keep):
            verdict = None  # the land factor is there; the series is truncated -> no_quantisation reports it
        elif close(prod, grown * keep) or explained_by_truncation(prod, grown, keep):
            verdict = "greenhouse_fraction_not_subtracted"
        else:
            verdict = "value"
        V.check("land_identity", verdict is None, {"branch": branch, "kind": verdict},
                lambda: _wit(r, month=i, production=float(prod[i]), grown=float(grown[i]), greenhouse_fraction=float(f[i]),
                             expected=float(want[i]),
                             production_over_grown_after_waste=float(prod[i] / (grown[i] * keep)) if grown[i] * keep else None,
                             expected_ratio=float(1 - f[i])),
                "outdoor output is not the amount grown x (1 - greenhouse fraction) x (1 - distribution waste)")

    # ---- no quantisation
    V.check("no_quantisation", r.raw_dtype["outdoor_crops"].startswith("float"), {"series": "outdoor_crops", "kind": "dtype", "branch": branch},
            lambda: _wit(r, dtype=r.raw_dtype["outdoor_crops"]), "outdoor production does not have a floating dtype")
    if keep > 0 and before_waste.any():
        lattice = c08.on_integer_lattice(prod / keep)
        grown_fractional = not c08.on_integer_lattice(before_waste) and not c08.on_integer_lattice(grown)
        if grown_fractional:
            i = int(np.argmax(np.abs(want - prod)))
            V.check("no_quantisation", not lattice, {"series": "outdoor_crops", "kind": "integer_lattice", "branch": branch},
                    lambda: _wit(r, month=i, production_before_waste=float(prod[i] / keep), grown_times_land=float(before_waste[i]),
                                 lost_fraction_of_month=float(1 - prod[i] / want[i]) if want[i] else None,
                                 lost_fraction_total=float(1 - prod.sum() / want.sum()) if want.sum() else None),
                    "outdoor production is truncated to whole billions of kcal")
    gh = r.series["greenhouse_crops"]
    if has_gh and gh.size == n and not c08.on_integer_lattice(ref["greenhouse_crops"]):
        # comparative, like the outdoor clause: the series sits on the integer lattice although the documented
        # value does not (values below 1e-9 of a billion kcal count as zero on either side)
        V.check("no_quantisation", r.raw_dtype["greenhouse_crops"].startswith("float") and not c08.on_integer_lattice(gh),
                {"series": "greenhouse_crops", "kind": "integer_lattice", "branch": branch},
                lambda: _wit(r, head=core.jsonable(gh[:12]), documented_head=core.jsonable(ref["greenhouse_crops"][:12])),
                "greenhouse production is quantised")
    return has_gh or relocation


# =========================================================================== pair clauses
def check_never_lowers(a, b, clause, V):
    """b (relocated / expanded) must not be below a in any month."""
    if a.N != b.N:
        return
    xa, xb = a.series["outdoor_crops"], b.series["outdoor_crops"]
    if xa.size != a.N or xb.size != b.N:
        return
    low = xb < xa * (1 - RTOL)
    ok = not low.any()
    cause = "value"
    if not ok:
        ci = b.inputs
        keep = 1 - ci["WASTE_DISTRIBUTION"]["CROPS"] / 100
        ref = c08.reference(ci, b.time_inputs)
        if ref is not None:
            full = ref["_grown"] * (1 - ref["_gh_fraction"]) * keep
            if (full >= xa * (1 - RTOL)).all() and (explained_by_truncation(xb, ref["_grown"] * (1 - ref["_gh_fraction"]), keep)
                                                    or explained_by_truncation(xb, ref["_grown"], keep)):
                cause = "integer_truncation"
    i = int(np.argmax(np.where(low, xa - xb, -np.inf))) if low.any() else None
    V.check(clause, ok, {"pair": "%s>%s" % (a.job["options"]["scenario"], b.job["options"]["scenario"]), "cause": cause},
            lambda: dict(_wit(b, partner_job=a.job.get("tag")), month=i, without=float(xa[i]), with_=float(xb[i]), months_lower=int(low.sum())),
            "%s yields less than %s in some month" % (b.job["options"]["scenario"], a.job["options"]["scenario"]))


def check_gh_delay_pair(a, b, p, V):
    k = b.timers_applied.get(p["key"], 0) - a.timers_applied.get(p["key"], 0)
    fa, fb = a.obs.get("gh_fraction"), b.obs.get("gh_fraction")
    if k <= 0 or fa is None or fb is None or a.N != b.N or not fa.any():
        return
    n = a.N
    ok = close(fb[k:], fa[:n - k]) and not fb[:k].any()
    V.check("gh_ramp_documented", ok, {"kind": "delay_shift"},
            lambda: _wit(a, twin_job=b.job.get("tag"), expected_shift=k, first_a=c08.first_nonzero(fa), first_b=c08.first_nonzero(fb)),
            "delaying greenhouses by %d months does not shift the area ramp by %d months" % (k, k))


# =========================================================================== history
P_SLICE_EVERY = 8  # every 8th history is an engine-P history (three-round runs under solver faults)


def generate(seed, h, tier):
    if h % P_SLICE_EVERY == P_SLICE_EVERY - 1:
        from .. import pcheck

        s = pcheck.generate(seed, ID, h, tier, jobs=(2, 3), vertex_p=0.2, fault_p=0.5, buggify_p=0.0,
                            profile_bias={"scenario": (0.6, LAND_SCENARIOS)})
        s["p_slice"] = True
        return s
    rng = core.Rng(seed, ID, h)
    wl = rng.sub("workload")
    hb = engine_p0.HistoryBuilder(h, ID)
    profile = workload.swarm_profile(wl)
    profile.pop("scenario", None)
    for _ in range(4):
        prof = dict(profile, scenario=wl.pick(LAND_SCENARIOS) if wl.chance(0.8) else wl.pick(workload.COUNTRY_VALUES["scenario"]))
        hb.add(engine_p0.base_job(wl, prof, world_p=0.12, overrides_p=0.3, small_p=0.25))
    pr = rng.sub("pairs")
    for what in ("relocation", "expansion"):
        base = engine_p0.base_job(pr, profile, world_p=0.12, overrides_p=0.3, small_p=0.3)
        a, b, rec = engine_p0.scenario_pair(base, what)
        hb.pair(hb.add(a), hb.add(b), rec)
    dl = rng.sub("delay")
    ja, jb, rec = engine_p0.delay_pair(dl, engine_p0.base_job(dl, profile, world_p=0.12, overrides_p=0.1, small_p=0.2), "GREENHOUSE_MONTHS")
    hb.pair(hb.add(ja), hb.add(jb), rec)
    sm = rng.sub("small")
    for _ in range(3):
        prof = dict(profile, scenario=sm.pick(LAND_SCENARIOS))
        j = engine_p0.base_job(sm, prof, country_only=True, overrides_p=0.2, small_p=1.0)
        if sm.chance(0.3) and "crop_kcals" not in j["options"]:
            # baselines down to fractions of a billion kcal a month (documented override route)
            j["options"]["crop_kcals"] = float(workload.row_of(j["iso3"])["crop_kcals"]) * sm.pick([0.5, 0.1, 0.03])
        hb.add(j)
    # schedule: in ~30 % of the histories every scenario is prepared before any is computed
    hb.spec["interleave"] = rng.sub("schedule").chance(0.3)
    return hb.spec


def evaluate(results, spec, V, probes):
    nontrivial, evaluations = [], 0
    for r in results:
        if r.status != "ok":
            continue
        on = check_job(r, V)
        evaluations += 1
        b = engine_p0.branch_of(r.inputs)
        probes["branch:" + b] = probes.get("branch:" + b, 0) + 1
        if r.obs.get("grown_differs_from_calendar_model"):
            probes["grown_differs_from_calendar_model(C08 matter)"] = probes.get("grown_differs_from_calendar_model(C08 matter)", 0) + 1
        if on and r.inputs["ADD_OUTDOOR_GROWING"]:
            nontrivial.append(engine_p0.job_case_digest(r))
            if float(np.max(r.series["outdoor_crops"])) < 100:
                probes["small_monthly_output(<100 bn kcal)"] = probes.get("small_monthly_output(<100 bn kcal)", 0) + 1
    for p in spec["pairs"]:
        a, b = results[p["a"]], results[p["b"]]
        if a.status != "ok" or b.status != "ok":
            probes["pair_without_verdict"] = probes.get("pair_without_verdict", 0) + 1
            continue
        if p["kind"] == "relocation":
            check_never_lowers(a, b, "relocation_never_lowers", V)
        elif p["kind"] == "expansion":
            check_never_lowers(a, b, "expansion_never_lowers", V)
        elif p["kind"] == "delay":
            check_gh_delay_pair(a, b, p, V)
    return nontrivial, evaluations


def _p_nontrivial(t, spec, i):
    return [core.digest([spec["jobs"][i], "rounds"])] if t.rounds else []


def execute(spec):
    if spec.get("p_slice"):
        from .. import monitors, pcheck

        return pcheck.execute(spec, ID, monitors.c09_rounds, _p_nontrivial)
    return engine_p0.run_history(spec, evaluate)


def shrink(spec):
    if spec.get("p_slice"):
        from .. import pcheck

        for s in pcheck.shrink(spec):
            s["p_slice"] = True
            yield s
        return
    for s in engine_p0.shrink(spec):
        yield s
