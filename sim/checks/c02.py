"""C02 - percent fed is the true optimum of the allocation problem (workload-driven)."""

from .. import core, monitors, pcheck, world

ID = "C02"
LEVEL = "exploration"
MAIN_CLAUSES = ["optimum_is_true_optimum", "optimum_physically_achievable"]
RULE = (
    "history = 2-3 seeded jobs run for real (round-2/3 LP instances only exist inside real runs); a case = one LP "
    "instance (round) whose reported optimum is compared with an LP formulated independently in matrix form from the "
    "captured supplies (prefix-sum ledgers, no stock variables) and solved by HiGHS; non-trivial = the code's LP was "
    "solved to optimality with >=1 modelled food; distinct = distinct (job digest, round). The simulator adds no "
    "schedule content here: the optimum does not depend on the vertex; workload and instance supply only."
)
ASSUMPTIONS = [
    "formulation: |optimum of the code's own first-stage LP (captured at the solver seam, solved by HiGHS) - reference| "
    "<= 5e-5*max(1,|reference|), confirmed at feasibility tolerances of 1e-9 before an alarm; solver accuracy: "
    "|figure reported from CBC - optimum of the same LP| <= 1e-3 relative (worst observed 1.4e-4 in ~110 000 LPs: WOR + "
    "seaweed, where CBC at primalT/dualT 1e-9 and HiGHS at 1e-7..1e-10 agree on the higher value; shortfalls above 5e-5 "
    "are counted in the probe c02_cbc_short_of_own_optimum_by_more_than_5e-5)",
    "two references: the code's meat rule (decides 'formulation' deviations) and the physical meat ledger (decides "
    "whether the reported figure is physically achievable)",
    "HiGHS (scipy 1.13) is the trusted solver of the reference",
]
COMPONENTS = pcheck.components(["reference LP solved by HiGHS (reference model of the solver node)"])
TIERS = {
    "quick": {"histories": 512, "budget_s": 120, "timeout": 400},
    "thorough": {"histories": 6400, "budget_s": 1800, "timeout": 500},
}


def prepare():
    world.setup_repo()


def generate(seed, h, tier):
    return pcheck.generate(seed, ID, h, tier, vertex_p=0.0, fault_p=0.2, buggify_p=0.1)


def _nontrivial(t, spec, i):
    out = []
    for rec in t.rounds:
        if rec.get("status") == 1 and "vars" in rec and any(v is True for k, v in rec["vars"].items() if k.startswith("_modelled_")):
            out.append(core.digest([spec["jobs"][i], rec["index"]]))
    return out


def execute(spec):
    return pcheck.execute(spec, ID, monitors.c02, _nontrivial, first_model=True)


shrink = pcheck.shrink
