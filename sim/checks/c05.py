"""C05 - meat and milk offered to the optimiser match the simulated herds and feed."""

from .. import core, monitors, pcheck, world

ID = "C05"
LEVEL = "exploration"
MAIN_CLAUSES = ["meat_matches_herds", "meat_total_matches_herds", "milk_matches_herds", "grass_within_supply",
                "round_given_herd_output", "charge_covers_herd_feed"]
RULE = (
    "history = 2-3 seeded jobs; the round-3 herd run consumes the (vertex-dependent) round-2 allocation; table-read "
    "faults on the 15 herd-table reads per job; a case = one herd run paired (through the object handed to "
    "init_meat_and_dairy_and_feed_from_breeding) with the series the optimiser of that round received; non-trivial = "
    ">=1 non-empty herd; distinct = distinct (job digest, herd-run index, solver mode, vertex seed)"
)
ASSUMPTIONS = [
    "per-head yield table written from the documentation: chicken/pig kg from the country row, small 2.36 kg*1525, "
    "medium 24.6 kg*3590, large 269.7 kg (or override)*2750 kcal/kg; milk 610 kcal/kg",
    "1e-9 relative",
]
COMPONENTS = pcheck.components()
TIERS = {
    "quick": {"histories": 512, "budget_s": 100, "timeout": 300},
    "thorough": {"histories": 6400, "budget_s": 1500, "timeout": 400},
}


def prepare():
    world.setup_repo()


def generate(seed, h, tier):
    return pcheck.generate(seed, ID, h, tier, vertex_p=0.4, fault_p=0.25, fault_seams=("read", "read", "solve"),
                           profile_bias={"cull": (0.6, ["do_eat_culled"])})


def _nontrivial(t, spec, i):
    out = []
    for k, hd in enumerate(t.herds):
        if any(a["population"].max() > 0 for a in hd["animals"]):
            out.append(core.digest([spec["jobs"][i], k, spec.get("solver"), spec["h"] if spec.get("solver") == "vertex" else 0]))
    return out


def execute(spec):
    return pcheck.execute(spec, ID, monitors.c05, _nontrivial)


shrink = pcheck.shrink
