"""C16 - every country completes under every documented preset (batch liveness).

Grid = 164 countries x country presets (13 shipped YAML scenarios, 12 manuscript country
presets, single-option variations of two bases) + world x world presets. Quick: seeded
sample of the grid packed into long histories (long-lived process, one or two faults
early in the history: after the last fault every job must complete). Thorough: the whole
grid (exhaustive).
"""

import math
import resource

from .. import core, engine_p, workload, world

ID = "C16"
LEVEL = "exploration"
MAIN_CLAUSES = ["completes", "finite_non_negative"]
SHRINK_EACH_IDENTITY = True
MAX_REPORTS = 40
RULE = (
    "grid cell = (country or world, preset); presets = shipped YAML scenarios, manuscript presets (with the stock-"
    "regime key the dispatcher accepts) and single-option variations of two bases; history = 24-40 grid cells run "
    "one after another in one long-lived process with 0-2 injected faults on the first jobs; a case = one cell run to "
    "completion with all built-in validators passing; non-trivial = reached round 3; distinct = distinct (country, preset)"
)
ASSUMPTIONS = [
    "manuscript presets use `ratio_stocks_untouched` (the key the dispatcher accepts) for the value the script passes "
    "as `end_simulation_stocks_ratio`",
    "jobs that received an injected fault may fail; every job after the last fault of a history must complete",
    "real CBC only (the property is about the shipped solver)",
]
COMPONENTS = {
    "real": ["option dispatch", "Parameters", "Optimizer + PuLP + CBC binary", "Extractor/Interpreter/Validator",
             "herd simulator", "run_model_no_trade coordinator"],
    "simulated": ["wall clock", "fault injection on the first jobs of a history (solver, result write, table read)"],
    "stub": [],
}
TIERS = {
    "quick": {"histories": 64, "jobs": 30, "budget_s": 170, "timeout": 600, "batch": 32},
    "thorough": {"histories": 10 ** 6, "jobs": 40, "budget_s": 6000, "timeout": 900, "batch": 64, "exhaustive": True},
}

_GRID = {}


def grid():
    if "g" in _GRID:
        return _GRID["g"]
    cp = workload.country_presets()
    names = dict(cp)
    bases = [("ms1:example_scenario", names["ms1:example_scenario"]),
             ("baseline_USA:baseline_model_by_country", names["baseline_USA:baseline_model_by_country"])]
    for bn, b in bases:
        cp += workload.single_option_variations(bn, b)
    wp = workload.manuscript_world_presets()
    wnames = dict(wp)
    for bn in ("ms3:example_scenario", "mss1:baseline"):
        wp += workload.single_option_variations(bn, wnames[bn])
    cells = []
    for iso in workload.country_codes():
        for name, _o in cp:
            cells.append((iso, name))
    for name, _o in wp:
        cells.append(("WOR", name))
    _GRID["g"] = cells
    _GRID["presets"] = dict(cp)
    _GRID["presets"].update(dict(wp))
    return cells


def prepare():
    world.setup_repo()
    grid()


def _order(seed):
    cells = list(range(len(grid())))
    core.Rng(seed, ID, "order").shuffle(cells)
    return cells


def generate(seed, h, tier):
    cfg = TIERS[tier]
    n = cfg["jobs"]
    order = _ORDER.setdefault(seed, _order(seed))
    idx = order[h * n:(h + 1) * n]
    fr = core.Rng(seed, ID, h, "faults")
    faults = {}
    cells = [list(grid()[i]) for i in idx]
    if tier == "quick" and h == 0:
        # fixed core of every quick run: the cells that lean on the documented workarounds (scenario rewrites for
        # SLV / ALB / ECU, the NZL constant, the 20 kcal shave needed with culled meat and no storage between years), run in the middle of a
        # long-lived process (never as its first job)
        def _fragile(c):
            o = _GRID["presets"][c[1]]
            rewrite = o.get("scenario") in ("seaweed", "all_resilient_foods", "all_resilient_foods_and_more_area")
            no_storage = str(o.get("ratio_stocks_untouched", "")).endswith("no_stored_between_years") and o.get("cull") == "do_eat_culled"
            return (c[0] in ("SLV", "ALB", "ECU", "NZL") and (rewrite or no_storage)) or (c[0] == "WOR" and no_storage)

        core_cells = [list(c) for c in grid() if _fragile(c)]
        cells = cells[:2] + core_cells
    if idx and fr.chance(0.6):
        # faults hit extra "sacrificial" jobs put in front of the history, never a grid cell of this
        # history: every cell of the grid is judged (the thorough tier stays exhaustive), and every
        # job after the last fault must complete (progress once faults stop)
        k = 1 + fr.randrange(2)
        extra = [list(grid()[fr.randrange(len(grid()))]) for _ in range(k)]
        cells = extra + cells
        for ji in range(k):
            seam = fr.pick(["solve", "write", "read"])
            if seam == "solve":
                faults[str(ji)] = [{"seam": "solve", "at": fr.randrange(9), "kind": fr.pick(["exec", "status:-1", "status:0", "slow", "iterate:-1"])}]
            elif seam == "write":
                faults[str(ji)] = [{"seam": "write", "at": fr.randrange(3), "kind": fr.pick(["enospc", "eio", "short"]), "k": fr.randrange(300)}]
            else:
                faults[str(ji)] = [{"seam": "read", "at": fr.randrange(15), "kind": fr.pick(["enoent", "eio", "parse", "truncated"])}]
                if fr.chance(0.4):
                    # the very first table read of the process (the country head-count table) torn: what a
                    # process-wide cache filled before validation would keep
                    faults[str(ji)] = [{"seam": "read", "name": "FAOSTAT_head_and_slaughter.csv", "nth": 0, "kind": "truncated"}]
    return {"h": h, "cells": cells, "faults": faults}


_ORDER = {}


def n_histories(tier):
    return math.ceil(len(grid()) / TIERS[tier]["jobs"])


def execute(spec):
    grid()
    presets = _GRID["presets"]
    rng = core.Rng("exec", ID, spec["h"])
    log = core.EventLog()
    d = world.enter_history("c16-%s" % spec["h"])
    violations, nontrivial, statuses = [], [], {}
    clauses = {"completes": 0, "finite_non_negative": 0, "progress_after_faults": 0}
    last_fault = max([int(k) for k in spec["faults"]] + [-1])
    rss0 = resource.getrusage(resource.RUSAGE_SELF).ru_maxrss
    sim_months = 0
    try:
        with engine_p.Sim(rng, log, capture=False) as sim:
            for i, (iso, pname) in enumerate(spec["cells"]):
                job = {"iso3": iso, "options": dict(presets[pname]), "title": "c16"}
                fl = spec["faults"].get(str(i))
                t = sim.run_job(job, faults=fl)
                st = t.status.split(":")[0]
                statuses[st] = statuses.get(st, 0) + 1
                if fl:
                    continue  # a faulted job may fail; it is not a comparison subject
                clauses["completes"] += 1
                if i > last_fault >= 0:
                    clauses["progress_after_faults"] += 1
                idn = {"iso3": iso, "preset": pname}
                if t.status != "ok":
                    violations.append(core.Violation(
                        ID, "completes", idn,
                        {"status": t.status, "error": getattr(t, "error_msg", None) or t.error, "position_in_history": i,
                         "after_last_fault": i > last_fault >= 0},
                        "a documented preset does not run to completion for this country").to_json())
                    continue
                p = float(t.result.percent_people_fed)
                clauses["finite_non_negative"] += 1
                sim_months += job["options"]["NMONTHS"] * 3
                nontrivial.append(core.digest([iso, pname]))
                if not (math.isfinite(p) and p >= 0):
                    violations.append(core.Violation(ID, "finite_non_negative", idn, {"percent_fed": p},
                                                     "percent fed is not finite and non-negative").to_json())
    finally:
        world.leave_history(d)
    rss1 = resource.getrusage(resource.RUSAGE_SELF).ru_maxrss
    return {
        "violations": violations,
        "evaluations": clauses["completes"],
        "nontrivial": nontrivial,
        "clauses": clauses,
        "faults": core.fault_counts(log),
        "probes": {"rss_growth_kb_total": max(0, rss1 - rss0), "histories_with_faults": 1 if spec["faults"] else 0},
        "statuses": statuses,
        "log_digest": log.digest(),
        "sim_months": sim_months,
        "aborts": 0,
        "sample": {"cells": spec["cells"][:6], "n_cells": len(spec["cells"]), "faults": spec["faults"]},
    }


def shrink(spec):
    cells = spec["cells"]
    n = len(cells)
    if n > 1:
        half = n // 2
        for keep in (list(range(half, n)), list(range(0, half))):
            nf = {}
            for ni, oi in enumerate(keep):
                if str(oi) in spec["faults"]:
                    nf[str(ni)] = spec["faults"][str(oi)]
            yield {"h": spec["h"], "cells": [cells[i] for i in keep], "faults": nf}
        if n <= 8:
            for i in range(n):
                keep = [j for j in range(n) if j != i]
                nf = {}
                for ni, oi in enumerate(keep):
                    if str(oi) in spec["faults"]:
                        nf[str(ni)] = spec["faults"][str(oi)]
                yield {"h": spec["h"], "cells": [cells[j] for j in keep], "faults": nf}
    if spec["faults"]:
        yield {"h": spec["h"], "cells": cells, "faults": {}}
