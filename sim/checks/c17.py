"""C17 - shipped tables are what the import pipeline derives (engine I).

History = a sequence of REAL runs of the 21 import scripts (`/venv/bin/python <script>`, cwd
= src/import_scripts_no_food_trade, as scripts/run_all_imports.sh does) on a private copy of
$VERIF_REPO/src + data under the scratch root, with seeded run order, crashes (torn output
files), stale / garbage leftovers, repeated runs and process environment. Kinds:

    documented   the documented order, once
    topological  a seeded topological order of the measured dependency DAG
    crash        script k runs and its output is torn after b bytes (optionally the readers
                 of that file, or the rest of the pass, go on as the shell script would);
                 then a full documented-order pass
    dirty        stale / garbage content in a seeded subset of the 21 outputs, leftover
                 files, optionally a few scripts run out of order; then a full pass
    double       everything twice (thorough tier, later slots: an earlier complete run in
                 documented / topological / shuffled order, then the judged pass)

Every history ends with a completed pass (documented order; a topological order for kind 2
and for some thorough-tier double runs).
Oracle after that pass: the 20 processed files and the combined table in the copy are
byte-identical to the shipped ones in $VERIF_REPO; the produced combined table passes the
audit written from the property statement (engine_i.audit_table).
Fail-stop rule: a script that exits non-zero on a torn / garbage input before the final pass
is fine (counted as a probe); what is judged is the state after the final pass.
"""

import os

from .. import core, engine_i, monitors

ID = "C17"
LEVEL = "exploration"
MAIN_CLAUSES = ["final_pass_completes", "processed_files_byte_identical", "combined_table_byte_identical", "table_audit"]
RULE = (
    "history = real subprocess runs of the 21 import scripts on a scratch copy of src/+data/: documented order | "
    "seeded topological order of the measured DAG | crash of a seeded script with its output torn after a seeded "
    "number of bytes (+ readers / rest of pass continuing) then full re-run | garbage or stale content in a seeded "
    "subset of outputs (+ leftover files, out-of-order partial run) then full re-run | double run; seeded hash seed, "
    "TZ, locale, empty or shipped start. A case = the state after the final completed pass; every history is "
    "non-trivial (21 real script runs at least); distinct = distinct (final-order digest, crash points, dirty set, "
    "start, passes)"
)
ASSUMPTIONS = [
    "a crash of a script after b bytes of output is modelled by running the script to completion and truncating "
    "its (single, O_TRUNC-opened) output file to b bytes; a crash before the open = the file left as it was",
    "the dependency DAG hard-coded in engine_i was measured by strace once; history 0 re-measures it under strace "
    "when ptrace is available and fails as a harness error on any difference",
    "scripts run with PYTHONPATH=<copy>, PYTHONDONTWRITEBYTECODE=1 and a seeded PYTHONHASHSEED/TZ/LC_ALL; "
    "otherwise the launcher's environment",
    "expected country set = the 164 codes written down in engine_i (ImportUtilities.country_codes with SWZ->SWT), "
    "cross-checked against the population table derived from the spreadsheet",
    "reductions: >= -1 - 1e-8 and stocks >= -1e-8 (the tolerances verify_country_data itself applies); "
    "percent_of_global_* are stored as fractions of 1; seasonality sum within 1e-6",
    "the percentage-averaging helper clause is NOT covered (pure function; DESIGN.md 6)",
]
COMPONENTS = {
    "real": ["the 21 import scripts as subprocesses", "src/utilities/import_utilities.py", "pandas / openpyxl / numpy readers and "
             "writers", "GitPython repo discovery", "the file system of the scratch copy"],
    "simulated": ["run order", "crash points (torn output files)", "stale / garbage leftovers in processed_data/",
                  "process environment (PYTHONHASHSEED, TZ, LC_ALL; a preferred text encoding that is not UTF-8; GIT_DIR "
                  "exported and naming another, empty repository)"],
    "stub": [],
}
# cost: one pass ~22 s of one core; histories run in parallel (one forked worker each), the
# scripts of one history sequentially (they share files).
TIERS = {
    "quick": {"histories": 16, "budget_s": 140, "timeout": 900, "batch": 16, "shrink_s": 150},
    "thorough": {"histories": 200, "budget_s": 700, "timeout": 900, "batch": 32, "shrink_s": 600},
}

KIND_CYCLE = ["documented", "topological", "crash", "dirty", "double", "topological", "crash", "dirty"]
DEFAULT_ENV = {"PYTHONHASHSEED": "0", "TZ": "UTC", "LC_ALL": "C"}
TEAR_MODES = ["byte", "byte", "byte", "line", "line", "zero", "last_byte"]
GARBAGE_MODES = ["empty", "random_bytes", "header_only", "drop_rows", "dup_row", "extra_country", "perturb_digit",
                 "other_table", "nan_cells", "delete"]
EXTRA_NAMES = ["old_csv.csv", "head_count_csv.csv.tmp", ".~lock.meat_csv.csv#", "population_csv (copy).csv",
               "computer_readable_combined.csv.bak",
               # a stale but well-formed table under a name an older revision might have used, and partial temp
               # files an interrupted writer might have left next to an output
               "crop_macros_csv.csv", "macros_csv.part", "macros_csv.csv.part", "nuclear_winter_csv.part"]


def _extra_content(name):
    """Bytes of a leftover file: a copy / a line-aligned prefix of a shipped table where the name suggests one."""
    import os

    def shipped(fn):
        with open(os.path.join(core.REPO_DIR, "data", "no_food_trade", "processed_data", fn), "rb") as f:
            return f.read()

    if name == "crop_macros_csv.csv":
        return shipped("macros_csv.csv")
    if name.endswith(".part"):
        base = name[: -len(".part")]
        base = base if base.endswith(".csv") else base + ".csv"
        b = shipped(base)
        cut = b.rfind(b"\n", 0, max(1, len(b) // 3)) + 1
        return b[:cut]
    return b"iso3,country,leftover\nAAA,Nowhere,1\n"


def prepare():
    engine_i.setup_root()  # no model import needed: the scripts run in their own interpreters


# --------------------------------------------------------------------------- generation
def _env(rng):
    if rng.chance(0.25):
        return dict(DEFAULT_ENV)
    e = {
        "PYTHONHASHSEED": rng.pick(["0", "1", "12345", str(rng.randrange(2 ** 32))]),
        "TZ": rng.pick(["UTC", "Pacific/Kiritimati", "America/St_Johns", "Asia/Kathmandu"]),
        "LC_ALL": rng.pick(["C", "C.UTF-8", "POSIX"]),
    }
    x = rng.sub("more")
    if x.chance(0.3):
        # a process whose preferred text encoding is NOT UTF-8 (plain C locale, no coercion, no UTF-8 mode): whatever
        # decodes the raw tables with the locale's encoding instead of the files' own meets "Mate" with an accent
        e.update({"LC_ALL": "C", "PYTHONCOERCECLOCALE": "0", "PYTHONUTF8": "0"})
    if x.chance(0.3):
        # git exports GIT_DIR to hooks and to commands run by rebase --exec / bisect run: here it names ANOTHER, empty
        # repository (created by the scratch copy next to itself); the scripts must keep using the one they stand in
        e["GIT_DIR"] = "@decoy"
    return e


def _crash(rng):
    # head_count (two readers + the join) and the join itself are the interesting points
    if rng.chance(0.3):
        s = rng.pick(["create_head_count_csv.py", "create_head_count_csv.py", engine_i.JOIN, "create_population_csv.py"])
    else:
        s = rng.pick(engine_i.DOC_ORDER)
    return {"script": s, "tear": rng.pick(TEAR_MODES), "ppm": rng.randrange(1000000),
            "then": rng.pick(["nothing", "readers", "readers", "rest_of_pass"])}


def generate(seed, h, tier):
    rng = core.Rng(seed, ID, h)
    kind = KIND_CYCLE[h % len(KIND_CYCLE)]
    if h >= 16 and kind == "documented" and (h // 8) % 5 != 0:
        # the documented order has only (start x environment) to vary: spend most of the
        # later "documented" slots of the thorough tier on the richer kinds
        kind = rng.sub("kind").pick(["topological", "crash", "dirty", "double"])
    spec = {
        "h": h, "kind": kind, "env": dict(DEFAULT_ENV), "start": "shipped", "trace": False,
        "crashes": [], "garbage": [], "extras": [], "prelude": [], "pre_passes": [], "order": list(engine_i.DOC_ORDER),
    }
    if h == 0:
        spec["trace"] = True  # the baseline: documented order, default environment, DAG re-measured
        return spec
    spec["env"] = _env(rng.sub("env"))
    if kind in ("documented", "topological", "double"):
        spec["start"] = rng.sub("start").pick(["empty", "empty", "shipped"])
    if kind == "topological":
        spec["order"] = engine_i.topological_order(rng.sub("order"))
    elif kind == "double":
        if h < 16:
            spec["pre_passes"] = [list(engine_i.DOC_ORDER)]  # everything twice, as documented
        else:
            # leftovers of an earlier complete run in another order (a shuffled order is not
            # topological: on an empty start some of its scripts fail-stop), then the judged pass
            r = rng.sub("order")
            first = r.pick(["documented", "topological", "shuffled", "shuffled"])
            if first == "documented":
                pre = list(engine_i.DOC_ORDER)
            elif first == "topological":
                pre = engine_i.topological_order(r)
            else:
                pre = list(engine_i.DOC_ORDER)
                r.shuffle(pre)
            spec["pre_passes"] = [pre]
            if r.chance(0.3):
                spec["order"] = engine_i.topological_order(r)
    elif kind == "crash":
        r = rng.sub("faults")
        spec["start"] = r.pick(["shipped", "shipped", "empty"])
        spec["crashes"] = [_crash(r) for _ in range(r.pick([1, 1, 1, 2]))]
        if h == 2:
            # always present in every tier: the one output with readers of its own, torn at a
            # line boundary (a shorter but well-formed table), the pass going on as the shell
            # script would
            spec["start"] = "shipped"
            spec["crashes"] = [{"script": "create_head_count_csv.py", "tear": "line", "ppm": r.randrange(1000000),
                                "then": "rest_of_pass"}]
    elif kind == "dirty":
        r = rng.sub("faults")
        files = list(engine_i.ALL_OUTPUTS)
        n = r.pick([2, 3, 4, 6, 21] if h < 16 else [1, 2, 2, 3, 4, 6, 21])
        if h == 3:
            # always present in every tier: every derived file dirty at once, so that each output is
            # stale/garbage at least once per run (a script that trusts an existing output is then seen)
            n = len(files)
        modes = list(GARBAGE_MODES)
        r.shuffle(modes)  # modes drawn without replacement within a history
        chosen = []
        if r.chance(0.4):
            chosen.append(engine_i.OUTPUT["create_head_count_csv.py"])
        if r.chance(0.3):
            chosen.append(engine_i.COMBINED)
        while len(chosen) < n:
            f = r.pick(files)
            if f not in chosen:
                chosen.append(f)
        spec["garbage"] = [{"file": f, "mode": modes[i % len(modes)], "seed": r.randrange(2 ** 31)} for i, f in enumerate(sorted(chosen))]
        spec["extras"] = sorted(set(r.pick(EXTRA_NAMES) for _ in range(r.randrange(3))))
        if h == 3:
            spec["extras"] = sorted(EXTRA_NAMES)  # the all-dirty history also carries every kind of leftover
        if r.chance(0.5):  # leftovers of an out-of-order partial run on the dirty directory
            cheap = [s for s in engine_i.DOC_ORDER if s not in ("create_seaweed_csv.py", "create_nuclear_winter_csv.py",
                                                                "create_crop_macros_csv.py")]
            spec["prelude"] = [r.pick(cheap) for _ in range(1 + r.randrange(3))]
    return spec


# --------------------------------------------------------------------------- execution
def _distinct_key(spec):
    return core.digest([
        core.digest(spec["order"]), [core.digest(o) for o in spec["pre_passes"]], spec["start"],
        [[c["script"], c["tear"], c["ppm"], c["then"]] for c in spec["crashes"]],
        [[g["file"], g["mode"], g["seed"]] for g in spec["garbage"]], spec["extras"], spec["prelude"],
    ])


def execute(spec):
    log = core.EventLog()
    V = monitors.Verdicts(ID, {"kind": spec["kind"]})
    probes = {"kind_" + spec["kind"]: 1, "scripts_run": 0, "passes_completed": 0}
    faults = {}
    statuses = {}
    skew = spec["env"]
    shipped = engine_i.shipped_tables()
    log.add("HISTORY", spec=spec)

    def fired(kind):
        faults[kind] = faults.get(kind, 0) + 1
        log.add("FAULT", kind=kind)

    with engine_i.Scratch() as sc:
        problems = sc.self_check()
        if problems:
            raise core.HarnessError("engine I self-check failed: %s" % "; ".join(problems))

        def run(script, phase, trace=False):
            r = sc.run(script, skew, trace=trace)
            probes["scripts_run"] += 1
            out = sc.read(engine_i.OUTPUT[script])
            log.add("RUN", script=script, phase=phase, rc=r["rc"], out=None if out is None else engine_i.sha(out)[:16])
            statuses["rc_%s" % ("0" if r["rc"] == 0 else "nonzero")] = statuses.get("rc_%s" % ("0" if r["rc"] == 0 else "nonzero"), 0) + 1
            return r, out

        def faulty_phase_run(script, what):
            """A run before the final pass, possibly on torn / garbage inputs: fail-stop is
            fine, a silently different output is recorded as a probe (the final pass decides)."""
            r, out = run(script, what)
            if r["rc"] != 0:
                probes["failstop_before_final_pass"] = probes.get("failstop_before_final_pass", 0) + 1
            elif out != shipped[engine_i.OUTPUT[script]]:
                probes["silent_wrong_output_before_final_pass"] = probes.get("silent_wrong_output_before_final_pass", 0) + 1
                log.add("PROBE", name="silent_wrong_output", script=script, phase=what)
            return r

        # ---- start state
        if spec["start"] == "empty":
            sc.wipe_outputs()
            log.add("OP", op="wipe")

        # ---- dirty directory
        for g in spec["garbage"]:
            sc.garbage(g["file"], g["mode"], g["seed"], shipped)
            fired("garbage:" + g["mode"])
        for name in spec["extras"]:
            sc.write(engine_i.PROC + "/" + name, _extra_content(name))
            fired("leftover_file")
        for s in spec["prelude"]:
            faulty_phase_run(s, "prelude")
            fired("out_of_order_run")

        # ---- crashes
        for c in spec["crashes"]:
            s = c["script"]
            faulty_phase_run(s, "crash")
            b = sc.tear(engine_i.OUTPUT[s], c["tear"], c["ppm"])
            log.add("TEAR", script=s, mode=c["tear"], bytes=b)
            fired("torn_output:" + c["tear"])
            follow = []
            if c["then"] == "readers":
                follow = engine_i.consumers(s)
            elif c["then"] == "rest_of_pass":  # run_all_imports.sh has no `set -e`: the pass goes on
                follow = engine_i.DOC_ORDER[engine_i.DOC_ORDER.index(s) + 1:]
            for t in follow:
                faulty_phase_run(t, "after_crash")

        # ---- complete passes; the last one is judged
        traced = {}
        for order in spec["pre_passes"]:
            for s in order:
                faulty_phase_run(s, "pre_pass")
            probes["pre_passes_run"] = probes.get("pre_passes_run", 0) + 1
            fired("earlier_full_run")
        for s in spec["order"]:
            r, _ = run(s, "final", trace=bool(spec.get("trace")))
            if r["trace"] is not None and r["rc"] == 0:  # a failed script did not perform all of its opens
                traced[s] = r["trace"]
            V.check("final_pass_completes", r["rc"] == 0, {"script": s},
                    lambda: {"script": s, "exit_code": r["rc"], "stderr_tail": r["stderr"][-800:],
                             "position_in_pass": spec["order"].index(s)},
                    "script exits non-zero in the final complete pass")
        probes["passes_completed"] += 1

        # ---- DAG re-measurement (harness self-test, not a verdict about the repo)
        if traced:
            probes["dag_scripts_retraced"] = len(traced)
            for s, t in sorted(traced.items()):
                want_r = sorted(engine_i.RAW_INPUTS[s] + [engine_i.OUTPUT[d] for d in engine_i.DEPENDS_ON[s]])
                want_w = [engine_i.OUTPUT[s]]
                if t["reads"] != want_r or t["writes"] != want_w:
                    raise core.HarnessError("measured DAG is stale for %s: traced reads=%s writes=%s, declared reads=%s writes=%s"
                                            % (s, t["reads"], t["writes"], want_r, want_w))
            log.add("DAG_TRACE", scripts=len(traced), match=True)
        elif spec.get("trace"):
            probes["dag_trace_unavailable"] = 1

        # ---- oracle: bytes
        produced = {rel: sc.read(rel) for rel in engine_i.ALL_OUTPUTS}
        for rel in engine_i.PROCESSED_FILES:
            same = produced[rel] is not None and produced[rel] == shipped[rel]
            log.add("ORACLE", file=os.path.basename(rel), same=same)
            V.check("processed_files_byte_identical", same, {"file": os.path.basename(rel)},
                    lambda: dict(engine_i.first_difference(produced[rel], shipped[rel]), file=rel),
                    "re-derived processed table differs from the shipped one")
        rel = engine_i.COMBINED
        same = produced[rel] is not None and produced[rel] == shipped[rel]
        log.add("ORACLE", file=os.path.basename(rel), same=same)
        V.check("combined_table_byte_identical", same, {"file": os.path.basename(rel)},
                lambda: dict(engine_i.first_difference(produced[rel], shipped[rel]), file=rel),
                "re-derived combined table differs from the shipped one")

        # ---- oracle: audit of the produced combined table
        checks, stats = engine_i.audit_table(produced[engine_i.COMBINED],
                                             produced[engine_i.OUTPUT["create_population_csv.py"]])
        for name, ident, ok, witness in checks:
            V.check("table_audit", ok, ident, witness, "combined table fails the audit: %s" % name)
        log.add("AUDIT", checks=len(checks), failed=sorted(set(n for n, _i, ok, _w in checks if not ok)),
                rows=stats["rows"], columns=stats["columns"])
        probes["cells_audited"] = stats["cells"]
        if stats.get("unclassified_columns"):
            probes["unclassified_columns"] = len(stats["unclassified_columns"])

    nontrivial = [_distinct_key(spec)] if probes["passes_completed"] == 1 else []
    return {
        "violations": [v.to_json() for v in V.violations],
        "evaluations": sum(V.clauses.values()),
        "nontrivial": nontrivial,
        "clauses": V.clauses,
        "faults": faults,
        "probes": probes,
        "statuses": statuses,
        "log_digest": log.digest(),
        "sim_months": 0,
        "aborts": 0,
        "sample": {"kind": spec["kind"], "start": spec["start"], "env": spec["env"],
                   "pre_passes": ["documented" if o == engine_i.DOC_ORDER else o for o in spec["pre_passes"]],
                   "order": "documented" if spec["order"] == engine_i.DOC_ORDER else spec["order"],
                   "crashes": spec["crashes"], "garbage": spec["garbage"], "extras": spec["extras"], "prelude": spec["prelude"]},
    }


# --------------------------------------------------------------------------- minimisation
def shrink(spec):
    def variant(**kw):
        s = {k: (list(v) if isinstance(v, list) else dict(v) if isinstance(v, dict) else v) for k, v in spec.items()}
        s.update(kw)
        return s

    if spec.get("trace"):
        yield variant(trace=False)
    # drop the dirty set
    if spec["garbage"] or spec["extras"] or spec["prelude"]:
        yield variant(garbage=[], extras=[], prelude=[])
    if spec["prelude"]:
        yield variant(prelude=[])
    if spec["extras"]:
        yield variant(extras=[])
    if len(spec["garbage"]) > 1:
        for i in range(len(spec["garbage"])):
            yield variant(garbage=[g for j, g in enumerate(spec["garbage"]) if j != i])
    # drop crashes, then move the crash earlier / simplify it
    if spec["crashes"]:
        yield variant(crashes=[])
        if len(spec["crashes"]) > 1:
            for i in range(len(spec["crashes"])):
                yield variant(crashes=[c for j, c in enumerate(spec["crashes"]) if j != i])
        for i, c in enumerate(spec["crashes"]):
            if c["then"] != "nothing":
                yield variant(crashes=[dict(x, then="nothing") if j == i else x for j, x in enumerate(spec["crashes"])])
            k = engine_i.DOC_ORDER.index(c["script"])
            for k2 in sorted(set([0, k // 2, k - 1])):
                if 0 <= k2 < k:
                    yield variant(crashes=[dict(x, script=engine_i.DOC_ORDER[k2]) if j == i else x
                                           for j, x in enumerate(spec["crashes"])])
            if c["tear"] != "zero":
                yield variant(crashes=[dict(x, tear="zero", ppm=0) if j == i else x for j, x in enumerate(spec["crashes"])])
    # fall back to the documented order, a single pass, the shipped start, the default environment
    if spec["order"] != engine_i.DOC_ORDER:
        yield variant(order=list(engine_i.DOC_ORDER))
    if spec["pre_passes"]:
        yield variant(pre_passes=[])
    if spec["start"] != "shipped":
        yield variant(start="shipped")
    if spec["env"] != DEFAULT_ENV:
        yield variant(env=dict(DEFAULT_ENV))
