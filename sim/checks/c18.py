"""C18 - hand-offs between rounds preserve totals, bounds and priorities."""

from .. import core, monitors, pcheck, world

ID = "C18"
LEVEL = "exploration"
MAIN_CLAUSES = ["min_needs_sum", "min_needs_bounded_by_round1", "min_needs_priority", "retime_total",
                "retime_at_least_round1", "bump_never_lowers", "bump_within_demand", "bump_reaches_optimiser"]
RULE = (
    "history = 2-3 seeded three-round jobs, cbc or random-optimal-vertex solver (the round-1 vertex determines every "
    "hand-off), buggified hand-offs (round-2 meat shifted later so that re-timing has work to do; random threshold); "
    "a case = the hand-off objects of one job captured at the helper boundaries; non-trivial = round 2 was reached; "
    "distinct = distinct (job digest, solver mode, vertex seed, buggify set)"
)
ASSUMPTIONS = [
    "only hand-offs of real runs are checked; 'arbitrary generated arrays fed to the helpers directly' is outside "
    "this technique (not-applicable clause, DESIGN.md 6)",
    "sum/total 1e-9 relative; adjustment may overshoot max(input, demand) by 1e-9 relative + 1e-6 (the helper's own divisor guard)",
]
COMPONENTS = pcheck.components()
TIERS = {
    "quick": {"histories": 512, "budget_s": 100, "timeout": 300},
    "thorough": {"histories": 6400, "budget_s": 1500, "timeout": 400},
}


def prepare():
    world.setup_repo()


def generate(seed, h, tier):
    return pcheck.generate(seed, ID, h, tier, vertex_p=0.5, fault_p=0.25, threshold_p=0.7, buggify_sites=("meat_lower",), buggify_p=0.35,
                           profile_bias={"shutoff": (0.7, ["continued", "long_delayed_shutoff", "continued_after_10_percent_fed",
                                                           "long_delayed_shutoff_after_10_percent_fed", "short_delayed_shutoff"])})


def _nontrivial(t, spec, i):
    if t.min_needs:
        return [core.digest([spec["jobs"][i], spec.get("solver"), spec.get("buggify"), spec["h"] if spec.get("solver") == "vertex" else 0])]
    return []


def execute(spec):
    return pcheck.execute(spec, ID, monitors.c18, _nontrivial)


shrink = pcheck.shrink
