"""C03 - humans come before animal feed and biofuel."""

from .. import core, monitors, pcheck, world

ID = "C03"
LEVEL = "exploration"
MAIN_CLAUSES = ["threshold_as_configured", "starving_no_feed", "final_reaches_threshold", "within_demand", "zero_after_shutoff"]
RULE = (
    "history = 2-3 seeded three-round jobs, threshold T overridden in ~half of them (0..100), cbc or random-optimal-"
    "vertex solver, buggified round-2 skip; a case = one job's recorded 3-round history checked against the demand "
    "schedule model and the priority relation; non-trivial = feed or biofuel demand non-zero in some month; distinct = "
    "distinct (job digest, solver mode, vertex seed, buggify set)"
)
ASSUMPTIONS = [
    "slack eps = max(0.1, 1e-3*T) percentage points; 'essentially no' = <= 0.1 % of monthly need",
    "demand schedule reference: annual tons/12*4e6/1e9 before the shut-off month, zero from it",
]
COMPONENTS = pcheck.components()
TIERS = {
    "quick": {"histories": 512, "budget_s": 100, "timeout": 300},
    "thorough": {"histories": 6400, "budget_s": 1500, "timeout": 400},
}


def prepare():
    world.setup_repo()


def generate(seed, h, tier):
    return pcheck.generate(seed, ID, h, tier, vertex_p=0.35, fault_p=0.25, threshold_p=0.8,
                           profile_bias={"shutoff": (0.5, ["continued", "long_delayed_shutoff", "continued_after_10_percent_fed",
                                                           "long_delayed_shutoff_after_10_percent_fed", "short_delayed_shutoff"])})


def _nontrivial(t, spec, i):
    if getattr(t, "c03_nontrivial", False):
        return [core.digest([spec["jobs"][i], spec.get("solver"), spec.get("buggify"), spec["h"] if spec.get("solver") == "vertex" else 0])]
    return []


def execute(spec):
    return pcheck.execute(spec, ID, monitors.c03, _nontrivial)


shrink = pcheck.shrink
