"""C11 - a food quantity's unit labels always describe its numbers (engine A).

History = a pack of seeded operation sequences on a pool of <= 6 Food objects; every
sequence is an explicit op list (construct, + - * /, unary -, [], get_month, sums, running
sums, min / max over months, min_elementwise, rounding, clipping, shift, in_units*
conversions, the comparison predicates) interleaved with environment ops (flip
include_fat / include_protein, change population / daily needs through
Food.conversions.set_nutrition_requirements - what another job's set_nutrition_per_month
does between two uses of a quantity). Oracle = the label algebra of sim/engine_a.py.
"""

from .. import core, engine_a, world

ID = "C11"
LEVEL = "exploration"
MAIN_CLAUSES = list(engine_a.CLAUSES)
RULE = (
    "history = pack of seeded op sequences (quick: 4..12 ops, thorough: 6..30) on a pool of <=6 Food objects with "
    "interleaved environment ops (include_fat / include_protein flips, population / daily-need changes); a case = one "
    "sequence judged op by op against a reference label algebra (the ops include the two in-place ones - index "
    "assignment and set_to_zero_after_month - after which only the target may differ, and construction from arrays "
    "the harness keeps and re-checks after every op); non-trivial = >=2 ops executed and at least one "
    "binary op (Food o Food, binary predicate) or unit conversion executed; distinct = distinct op-sequence digest"
)
ASSUMPTIONS = [
    "an operation that refuses (raises) where a result was expected is not a violation: C11 constrains returned "
    "quantities and demands refusal of unlike units, it does not promise success (counted as probe refused:<op>)",
    "numbers are compared step by step at 1e-12 relative: after a verified op the reference adopts the real numbers",
    "rounding is judged as a property (within half a unit of the last kept decimal, on the decimal grid)",
    "in_units_kcals_grams_grams_per_person_from_ratio: labels judged, numbers not (its docstring does not define them)",
    "unit strings come from the documented families (billion kcals / thousand tons, people fed, percent fed, per-person "
    "per-day, dry caloric tons, ratio, two free-text units) with the documented suffixes ' each month' / ' per month'",
    "only forward shifts (months >= 0), non-zero divisors and magnitudes <= 1e15 are generated",
    "the include flags are flipped through set_nutrition_requirements (the only writer in the repo), never by "
    "assigning attributes, so include_* / exclude_* are always consistent",
    "identity key stale_units_operand=true: the failure disappears when the same op is repeated on operands rebuilt "
    "with a fresh units list, i.e. it is a consequence of an earlier units_list_consistent failure (get_month)",
]
COMPONENTS = {
    "real": ["Food (all arithmetic, indexing, aggregation, clipping, rounding, shifting, predicates)",
             "UnitConversions (set_nutrition_requirements, in_units*, unit-list helpers)"],
    "simulated": ["environment ops: another job's set_nutrition_per_month between two uses of a quantity"],
    "stub": [],
}
SHRINK_EACH_IDENTITY = True  # one minimised replay per violation identity, not per clause
TIERS = {
    "quick": {"histories": 512, "budget_s": 55, "timeout": 120, "batch": 64, "shrink_s": 30,
              "seqs": 100, "len": [4, 12]},
    "thorough": {"histories": 4800, "budget_s": 570, "timeout": 300, "batch": 64, "shrink_s": 60,
                 "seqs": 120, "len": [6, 30]},
}


def prepare():
    world.setup_repo()


def generate(seed, h, tier):
    cfg = TIERS[tier]
    return engine_a.generate_history(seed, ID, h, cfg["seqs"], cfg["len"][0], cfg["len"][1])


def execute(spec):
    return engine_a.run_history(spec, ID)


def shrink(spec):
    return engine_a.shrink_spec(spec)
