"""Engine P0: the real code up to and including
`Parameters().compute_parameters_first_round(constants_for_params, time_consts_for_params,
scenario_loader)` - no LP.

A country job is prepared exactly as `ScenarioRunnerNoTrade.run_model_no_trade` does it:
the row comes from `DataFrame.iterrows()` over data/no_food_trade/computer_readable_combined.csv
(Python floats in an object Series, never `.iloc`), then `apply_custom_parameters`,
`verify_country_data`, `ScenarioRunner().set_depending_on_option(options, country_data=row)`.
World jobs: `set_depending_on_option(options)` with scale global.

Model-time timers: after the dispatcher returns, the job's seeded `timers` overwrite the
entries of `constants_for_params["DELAY"]` that the chosen scenario defines (a timer of a
food that is switched off does not exist and is not invented).

What is captured (no repo edits; wrappers on the imported classes, removed afterwards):
  * the tuple returned by compute_parameters_first_round -> every supply series;
  * the grass series handed to the herd simulator (CalculateFeedAndMeat.__init__);
  * OutdoorCrops state between `calculate_monthly_production` and
    `set_crop_production_minus_greenhouse_area` (amount grown, with / without relocation)
    and the greenhouse fraction that method was given (for C09).

Also here: the seeded history generator shared by C08 / C09 (base jobs, scaling twins,
scenario twins, delay twins, calendar probes) and the generic shrinker.
"""

import copy
import traceback

import numpy as np

from . import core, workload, world

TIMER_KEYS = [
    "SEAWEED_MONTHS", "GREENHOUSE_MONTHS", "INDUSTRIAL_FOODS_MONTHS", "FEED_SHUTOFF_MONTHS",
    "BIOFUEL_SHUTOFF_MONTHS", "ROTATION_CHANGE_IN_MONTHS",
]

SERIES = [
    "outdoor_crops", "greenhouse_crops", "fish", "grass", "feed_demand", "biofuels_demand", "methane_scp",
    "cellulosic_sugar", "seaweed_built_area", "seaweed_growth", "stored_food",
]

SMALL_COUNTRIES = ["LUX", "BRB", "MLT", "SGP", "BRN", "CPV", "TTO", "CYP", "BHR", "QAT", "KWT", "DJI", "LSO", "BTN", "GUY", "EST", "SWT", "MNG"]

STOCK_COLS = ["stocks_kcals_" + x for x in ["jan", "feb", "mar", "apr", "may", "jun", "jul", "aug", "sep", "oct",
                                           "nov", "dec"]]

# baseline column (documented override route: option key == table column) -> (series that
# must scale with it, upper bound accepted by verify_country_data / the dispatcher)
SCALE_COLUMNS = {
    "crop_kcals": (["outdoor_crops", "greenhouse_crops"], 10e9),
    "aq_kcals": (["fish"], None),
    "grasses_baseline": (["grass"], 20000.0),
    "feed_kcals": (["feed_demand"], 2e9),
    "biofuel_kcals": (["biofuels_demand"], 1e9),
    "percent_of_global_production": (["cellulosic_sugar"], 1.0),
    "percent_of_global_capex": (["methane_scp"], 1.0),
    "stocks": (["stored_food"], 10e9),
}

_TABLE = {}


def country_rows():
    """iso3 -> row Series, produced by iterrows() exactly as run_model_no_trade does."""
    if "rows" not in _TABLE:
        import pandas as pd

        path = "%s/data/no_food_trade/computer_readable_combined.csv" % core.REPO_DIR
        tab = pd.read_csv(path)
        rows = {}
        for _index, country_data in tab.iterrows():
            rows[country_data["iso3"]] = country_data
        _TABLE["rows"] = rows
    return _TABLE["rows"]


def fresh_row(iso3):
    """A private copy of the iterrows() row (object dtype, Python floats): the model writes
    into the row (apply_custom_parameters, verify_country_data)."""
    r = country_rows()[iso3].copy(deep=True)
    assert r.dtype == object and type(r["population"]) is float, "row must carry Python floats"
    return r


def _arr(x):
    return np.array(x, dtype=float).copy()


class Result:
    def __init__(self, job):
        self.job = job
        self.status = None
        self.error = None
        self.error_msg = ""
        self.inputs = None  # deep copy of constants_for_params as handed to Parameters
        self.time_inputs = None
        self.row = None  # country row after apply_custom_parameters / verify (dict)
        self.timers_applied = {}
        self.series = {}  # name -> float array (stored_food: scalar array of size 1 or N zeros)
        self.raw_dtype = {}  # name -> dtype string of the object handed over
        self.units = {}
        self.obs = {}  # OutdoorCrops / Greenhouses state observed at the seams
        self.digest = None

    @property
    def N(self):
        return self.inputs["NMONTHS"]


class Engine:
    """Wrappers + job runner for one history (one process)."""

    def __init__(self, log):
        self.log = log
        self.cur = None
        self._saved = []

    # ---------------------------------------------------------------- wrappers
    def _wrap(self, owner, name, make):
        orig = owner.__dict__[name]
        self._saved.append((owner, name, orig))
        setattr(owner, name, make(orig))

    def __enter__(self):
        m = world.mods()
        eng = self
        OutdoorCrops, Greenhouses, Herd = m.par.OutdoorCrops, m.par.Greenhouses, m.par.CalculateFeedAndMeat

        def mk_monthly(orig):
            def calculate_monthly_production(self, constants_for_params):
                out = orig(self, constants_for_params)
                r = eng.cur
                if r is not None:
                    r.obs["grown"] = _arr(self.KCALS_GROWN)
                    r.obs["grown_no_relocation"] = _arr(self.NO_RELOCATION_KCALS_GROWN)
                    r.obs["reductions"] = _arr(self.all_months_reductions)
                    r.obs["months_cycle"] = _arr(self.months_cycle)
                return out

            return calculate_monthly_production

        def mk_minus(orig):
            def set_crop_production_minus_greenhouse_area(self, constants_for_params, greenhouse_fraction_area):
                r = eng.cur
                if r is not None:
                    r.obs["gh_fraction"] = _arr(greenhouse_fraction_area)
                    r.obs["gh_fraction_dtype"] = str(np.asarray(greenhouse_fraction_area).dtype)
                    if hasattr(self, "KCALS_GROWN"):
                        # state between the two methods (the expanded-area ramp has been applied)
                        r.obs["grown_at_seam"] = _arr(self.KCALS_GROWN)
                        r.obs["grown_no_relocation_at_seam"] = _arr(self.NO_RELOCATION_KCALS_GROWN)
                out = orig(self, constants_for_params, greenhouse_fraction_area)
                if r is not None:
                    r.obs["production_dtype"] = str(np.asarray(self.production.kcals).dtype)
                return out

            return set_crop_production_minus_greenhouse_area

        def mk_area(orig):
            def get_greenhouse_area(self, constants_for_params, outdoor_crops):
                out = orig(self, constants_for_params, outdoor_crops)
                r = eng.cur
                if r is not None:
                    r.obs["gh_area"] = _arr(out)
                    r.obs["total_crop_area"] = float(self.TOTAL_CROP_AREA)
                return out

            return get_greenhouse_area

        def mk_herd(orig):
            def __init__(self, country_code, available_feed, available_grass, scenario, kcals_per_head_meat_dict,
                         constants_inputs=None):
                r = eng.cur
                if r is not None:
                    r.series["grass"] = _arr(available_grass.kcals)
                    r.raw_dtype["grass"] = str(np.asarray(available_grass.kcals).dtype)
                    r.units["grass"] = available_grass.kcals_units
                orig(self, country_code, available_feed, available_grass, scenario, kcals_per_head_meat_dict,
                     constants_inputs)

            return __init__

        self._wrap(OutdoorCrops, "calculate_monthly_production", mk_monthly)
        self._wrap(OutdoorCrops, "set_crop_production_minus_greenhouse_area", mk_minus)
        self._wrap(Greenhouses, "get_greenhouse_area", mk_area)
        self._wrap(Herd, "__init__", mk_herd)
        return self

    def __exit__(self, *a):
        for owner, name, orig in reversed(self._saved):
            setattr(owner, name, orig)
        self._saved = []
        return False

    # ---------------------------------------------------------------- one job
    def run_job(self, job):
        prep = self.prepare(job)
        return self.compute(prep)

    def prepare(self, job):
        """Phase 1 of a job (public call set_depending_on_option, as a driver would make it): option
        dispatch + the job's model-time timers. Returns what phase 2 needs. The constants are
        snapshotted: they are 'the inputs' the supply series must be a function of."""
        m = world.mods()
        r = Result(job)
        self.log.add("JOB_START", spec=core.digest(job), iso3=job["iso3"])
        options = copy.deepcopy(job["options"])
        prep = {"r": r, "args": None}
        try:
            with world.quiet():
                if job["iso3"] == "WOR":
                    cfp, tcfp, loader = m.rs.ScenarioRunner().set_depending_on_option(options)
                else:
                    no_trade = m.rmnt.ScenarioRunnerNoTrade()
                    row = fresh_row(job["iso3"])
                    row = no_trade.apply_custom_parameters(row, options)
                    no_trade.verify_country_data(row)
                    r.row = {k: row[k] for k in row.index if not str(k).startswith("seaweed_growth_per_day_")}
                    cfp, tcfp, loader = m.rs.ScenarioRunner().set_depending_on_option(options, country_data=row)
                for k in TIMER_KEYS:
                    v = (job.get("timers") or {}).get(k)
                    if v is not None and k in cfp["DELAY"]:
                        cfp["DELAY"][k] = int(v)
                        r.timers_applied[k] = int(v)
                r.inputs = copy.deepcopy(cfp)
                r.time_inputs = {k: _arr(v) for k, v in tcfp.items()}
                prep["args"] = (cfp, tcfp, loader)
        except SystemExit as e:
            r.status = "raised:SystemExit"
            r.error_msg = "SystemExit(%r)" % (e.code,)
        except BaseException as e:  # noqa: the job's failure is an outcome, not a harness error
            r.status = "raised:" + type(e).__name__
            r.error = traceback.format_exc(limit=5)
            r.error_msg = (str(e) or type(e).__name__)[:120]
        return prep

    def compute(self, prep):
        """Phase 2: Parameters().compute_parameters_first_round on what phase 1 returned."""
        m = world.mods()
        r = prep["r"]
        if prep["args"] is not None:
            cfp, tcfp, loader = prep["args"]
            # between the two phases other scenarios may have been prepared: the constants this
            # scenario was configured with must still be the ones it is computed from
            r.inputs_changed_before_use = _first_difference(r.inputs, cfp)
            self.cur = r
            try:
                with world.quiet():
                    out = m.par.Parameters().compute_parameters_first_round(cfp, tcfp, loader)
                self._extract(r, out)
                r.status = "ok"
            except SystemExit as e:
                r.status = "raised:SystemExit"
                r.error_msg = "SystemExit(%r)" % (e.code,)
            except BaseException as e:  # noqa
                r.status = "raised:" + type(e).__name__
                r.error = traceback.format_exc(limit=5)
                r.error_msg = (str(e) or type(e).__name__)[:120]
            finally:
                self.cur = None
        r.digest = core.digest({k: v.tolist() for k, v in sorted(r.series.items())}) if r.status == "ok" else None
        self.log.add("JOB_END", status=r.status, digest=r.digest, timers=r.timers_applied)
        return r

    @staticmethod
    def _extract(r, out):
        co, tc = out[0], out[1]

        def put(name, obj, units=None):
            r.raw_dtype[name] = str(np.asarray(obj).dtype)
            r.series[name] = np.atleast_1d(_arr(obj))
            if units is not None:
                r.units[name] = units

        put("outdoor_crops", tc["outdoor_crops"].production.kcals, tc["outdoor_crops"].production.kcals_units)
        put("greenhouse_crops", tc["greenhouse_crops"].kcals, tc["greenhouse_crops"].kcals_units)
        put("fish", tc["fish"].to_humans.kcals, tc["fish"].to_humans.kcals_units)
        put("methane_scp", tc["methane_scp"].kcals, tc["methane_scp"].kcals_units)
        put("cellulosic_sugar", tc["cellulosic_sugar"].kcals, tc["cellulosic_sugar"].kcals_units)
        put("seaweed_built_area", tc["built_area"])
        put("seaweed_growth", tc["growth_rates_monthly"])
        put("feed_demand", out[4].kcals, out[4].kcals_units)
        put("biofuels_demand", out[5].kcals, out[5].kcals_units)
        sf = co["stored_food"].initial_available
        put("stored_food", sf.kcals, sf.kcals_units)
        r.obs["outdoor_fat"] = _arr(tc["outdoor_crops"].production.fat)
        r.obs["greenhouse_fat"] = _arr(tc["greenhouse_crops"].fat)


# =========================================================================== generation
def random_timers(rng, nmonths, keep_p=0.25):
    """Seeded model-time timers in their plausible ranges. With probability keep_p the
    scenario's own timers are kept (empty dict)."""
    if rng.chance(keep_p):
        return {}
    t = {}
    for k in ["SEAWEED_MONTHS", "GREENHOUSE_MONTHS", "INDUSTRIAL_FOODS_MONTHS", "ROTATION_CHANGE_IN_MONTHS"]:
        t[k] = rng.pick([0, 1, 2, 3, 6, 12, rng.randrange(13)])
    for k in ["FEED_SHUTOFF_MONTHS", "BIOFUEL_SHUTOFF_MONTHS"]:
        t[k] = rng.pick([0, 1, 2, 3, 6, 12, nmonths, nmonths - 1, rng.randrange(nmonths + 1)])
    return t


def base_job(rng, profile=None, world_p=0.08, overrides_p=0.3, small_p=0.0, horizon=None, country_only=False):
    j = workload.random_job(rng, profile, world_p=0.0 if country_only else world_p, overrides_p=overrides_p,
                            horizon=horizon)
    if j["iso3"] != "WOR" and rng.chance(small_p):
        j["iso3"] = rng.pick(SMALL_COUNTRIES)
    j.pop("title", None)
    # engine P0 never reaches the LP: the overrides that only matter there stay in the option
    # vector (they are documented options) but the herd-only one is dropped for world jobs already
    j["timers"] = random_timers(rng.sub("timers"), j["options"]["NMONTHS"])
    j["role"] = "base"
    return j


def _row_float(iso3, col):
    return float(workload.row_of(iso3)[col])


def scale_twin(rng, job, column=None):
    """Twin of a country job whose row differs by a factor on one baseline column, through
    the documented override route. Returns (twin, pair record) or None."""
    if job["iso3"] == "WOR":
        return None
    cols = sorted(SCALE_COLUMNS)
    rng.shuffle(cols)
    if column:
        cols = [column]
    for c in cols:
        _affected, bound = SCALE_COLUMNS[c]
        names = STOCK_COLS if c == "stocks" else [c]
        if any(n in job["options"] for n in names):
            continue
        vals = [_row_float(job["iso3"], n) for n in names]
        if max(vals) <= 0 or min(vals) < 0:
            continue
        f = rng.pick([0.5, 2.0, 0.25, 3.0, 1.5, 0.1, 10.0, round(rng.uniform(0.05, 5.0), 3)])
        if bound is not None and max(vals) * f >= bound:
            f = rng.pick([0.5, 0.25, 0.1, round(rng.uniform(0.05, 0.95), 3)])
        twin = workload.clone(job)
        for n, v in zip(names, vals):
            twin["options"][n] = v * f
        twin["role"] = "scale_twin"
        return twin, {"kind": "scale", "column": c, "factor": f}
    return None


SCENARIO_PAIRS = {
    "relocation": ("no_resilient_foods", "relocated_crops"),
    "expansion": ("all_resilient_foods", "all_resilient_foods_and_more_area"),
}


def scenario_pair(job, what):
    a, b = workload.clone(job), workload.clone(job)
    a["options"]["scenario"], b["options"]["scenario"] = SCENARIO_PAIRS[what]
    a["role"], b["role"] = what + "_base", what + "_twin"
    return a, b, {"kind": what}


DELAY_SCENARIOS = {
    "INDUSTRIAL_FOODS_MONTHS": ["methane_scp", "cellulosic_sugar", "industrial_foods", "all_resilient_foods"],
    "SEAWEED_MONTHS": ["seaweed", "all_resilient_foods", "all_resilient_foods_and_more_area"],
    "GREENHOUSE_MONTHS": ["greenhouse", "all_resilient_foods", "all_resilient_foods_and_more_area"],
}


def delay_pair(rng, job, key):
    """Two jobs identical except for one start-up delay (k months apart)."""
    a = workload.clone(job)
    a["options"]["scenario"] = rng.pick(DELAY_SCENARIOS[key])
    if not a.get("timers"):
        a["timers"] = random_timers(rng.sub("t"), a["options"]["NMONTHS"], keep_p=0.0)
    d0 = rng.randrange(0, 9)
    k = rng.randrange(1, 7)
    a["timers"][key] = d0
    b = workload.clone(a)
    b["timers"][key] = d0 + k
    a["role"], b["role"] = "delay_base", "delay_twin"
    return a, b, {"kind": "delay", "key": key, "shift": k}


PROBE_OPTIONS = {
    "scale": "country", "scenario": "no_resilient_foods", "grasses": "baseline", "crop_disruption": "zero",
    "fish": "baseline", "waste": "baseline_in_country", "nutrition": "baseline", "intake_constraints": "enabled",
    "stored_food": "baseline", "ratio_stocks_untouched": "zero", "shutoff": "immediate", "cull": "do_eat_culled",
    "fat": "not_required", "protein": "not_required", "meat_strategy": "reduce_breeding", "seasonality": "country",
}


def _pick_with(rng, column, exclude=()):
    """A country whose baseline in `column` is positive (a probe on a zero baseline shows nothing)."""
    while True:
        iso3 = workload.pick_country(rng)
        if iso3 not in exclude and _row_float(iso3, column) > 0:
            return iso3


def onehot_probe(rng):
    """Synthetic step case for the calendar alignment: the whole annual harvest falls into one
    calendar month (override of the twelve seasonality columns), no disruption."""
    iso3 = _pick_with(rng, "crop_kcals", exclude=("ZAF",))  # ZAF: documented year-1 exception
    c = rng.randrange(1, 13)
    o = dict(PROBE_OPTIONS, NMONTHS=rng.pick(workload.HORIZONS))
    for i in range(1, 13):
        o["seasonality_m%d" % i] = 1.0 if i == c else 0.0
    return ({"iso3": iso3, "options": o, "timers": {}, "role": "onehot_probe"},
            {"kind": "onehot", "calendar_month": c})


def step_probe(rng, family):
    """Synthetic step case for the year blocks: no seasonality, one model year disrupted."""
    # ZAF: documented exception (its whole harvest counts as "before May": year 1 is empty even undisrupted)
    iso3 = _pick_with(rng, "crop_kcals" if family == "crop" else "grasses_baseline", exclude=("ZAF",))
    n = rng.pick(workload.HORIZONS)
    y = rng.randrange(1, 11)
    v = rng.pick([-0.6, -0.25, -0.9])
    o = dict(PROBE_OPTIONS, NMONTHS=n, seasonality="no_seasonality")
    if family == "crop":
        o["crop_disruption"] = "country_nuclear_winter"
        for i in range(1, 11):
            o["crop_reduction_year%d" % i] = v if i == y else 0.0
    else:
        o["grasses"] = "country_nuclear_winter"
        for i in range(1, 11):
            o["grasses_reduction_year%d" % i] = v if i == y else 0.0
    return ({"iso3": iso3, "options": o, "timers": {}, "role": "step_probe"},
            {"kind": "step", "family": family, "year": y, "value": v})


class HistoryBuilder:
    def __init__(self, h, prop):
        self.spec = {"h": h, "prop": prop, "jobs": [], "pairs": [], "probes": []}

    def add(self, job):
        job = workload.clone(job)
        job["tag"] = len(self.spec["jobs"])
        self.spec["jobs"].append(job)
        return job["tag"]

    def pair(self, a, b, rec):
        rec = dict(rec, a=a, b=b)
        self.spec["pairs"].append(rec)

    def probe(self, j, rec):
        self.spec["probes"].append(dict(rec, job=j))


# =========================================================================== shrinking
def _without_job(spec, i):
    s = copy.deepcopy(spec)
    del s["jobs"][i]
    ren = {}
    for new, j in enumerate(s["jobs"]):
        ren[j["tag"]] = new
        j["tag"] = new
    s["pairs"] = [dict(p, a=ren[p["a"]], b=ren[p["b"]]) for p in spec["pairs"] if p["a"] in ren and p["b"] in ren]
    s["probes"] = [dict(p, job=ren[p["job"]]) for p in spec["probes"] if p["job"] in ren]
    return s


def shrink(spec):
    """Smaller candidates: drop a job (with the pairs / probes that need it), drop timers,
    drop numeric overrides, shorten the horizon, revert options to the plainest preset."""
    n = len(spec["jobs"])
    paired = set()
    for p in spec["pairs"]:
        paired.update((p["a"], p["b"]))
    order = [i for i in range(n) if i not in paired] + [i for i in range(n) if i in paired]
    if n > 1:
        # first try to keep only one job (a probe is one job) or only one pair
        for i in range(n):
            s = spec
            for k in sorted(set(range(n)) - {i}, reverse=True):
                s = _without_job(s, k)
            yield s
        for p in spec["pairs"]:
            keep = {p["a"], p["b"]}
            if len(keep) < n:
                s = spec
                for i in sorted(set(range(n)) - keep, reverse=True):
                    s = _without_job(s, i)
                yield s
        if n > 3:
            for i in order:
                yield _without_job(spec, i)
    for i, j in enumerate(spec["jobs"]):
        in_pair = [p for p in spec["pairs"] if i in (p["a"], p["b"])]
        if in_pair:
            continue  # changing one side of a pair would unpair it
        if j.get("timers"):
            s = copy.deepcopy(spec)
            s["jobs"][i]["timers"] = {}
            yield s
        o = j["options"]
        is_probe = any(p["job"] == i for p in spec["probes"])
        if not is_probe:
            for k in [k for k in o if k not in workload.FAMILIES and k != "NMONTHS"]:
                s = copy.deepcopy(spec)
                del s["jobs"][i]["options"][k]
                yield s
        if o["NMONTHS"] > 48:
            s = copy.deepcopy(spec)
            s["jobs"][i]["options"]["NMONTHS"] = 48
            yield s
        if o.get("scale") == "country" and not is_probe:
            for fam, v in PROBE_OPTIONS.items():
                if fam in ("scenario",):
                    continue
                if o.get(fam) != v:
                    s = copy.deepcopy(spec)
                    s["jobs"][i]["options"][fam] = v
                    yield s


# =========================================================================== helpers for the checks
def job_case_digest(r):
    """distinct by (row digest, option vector, horizon, timers)"""
    o = r.job["options"]
    return core.digest([
        core.digest(r.row) if r.row is not None else "WOR",
        {k: o.get(k) for k in workload.FAMILIES},
        {k: v for k, v in o.items() if k not in workload.FAMILIES},
        r.timers_applied,
    ])


def job_sample(j):
    o = j["options"]
    return {"iso3": j["iso3"], "role": j.get("role"), "timers": j.get("timers"),
            "options": {k: o[k] for k in workload.FAMILIES if k in o},
            "extra": {k: v for k, v in o.items() if k not in workload.FAMILIES}}


def branch_of(inputs):
    """Scenario family / code branch of a job (identity component; no country, no month)."""
    reloc = bool(inputs.get("OG_USE_BETTER_ROTATION"))
    gh = bool(inputs.get("ADD_GREENHOUSES"))
    more = inputs.get("RATIO_INCREASED_CROP_AREA", 1) > 1
    if reloc:
        b = "relocated+expanded" if more else "relocated"
    else:
        b = "not_relocated"
    return b + ("+greenhouses" if gh else "")


def components():
    return {
        "real": ["table read + iterrows row, apply_custom_parameters, verify_country_data",
                 "option dispatch (ScenarioRunner.set_depending_on_option, Scenarios)",
                 "Parameters.compute_parameters_first_round with every food_system class it drives "
                 "(OutdoorCrops, Greenhouses, Seafood, StoredFood, MethaneSCP, CellulosicSugar, Seaweed, "
                 "MeatAndDairy, FeedAndBiofuels) and one herd simulation"],
        "simulated": ["model-time timers: DELAY[...] entries overwritten with seeded values after dispatch",
                      "results dir / cwd re-pointed at a per-history scratch root (nothing is written)"],
        "stub": [],
    }


def _first_difference(a, b, path=""):
    """First key path at which two constants dictionaries differ (None if equal)."""
    if isinstance(a, dict) and isinstance(b, dict):
        for k in sorted(set(a) | set(b), key=str):
            if k not in a or k not in b:
                return path + "/" + str(k)
            d = _first_difference(a[k], b[k], path + "/" + str(k))
            if d:
                return d
        return None
    try:
        same = bool(np.all(np.asarray(a) == np.asarray(b)))
    except Exception:
        same = a is b
    return None if same else (path or "/")


def run_history(spec, evaluate):
    """Shared child-side driver: run every job of the history, then let `evaluate(results,
    spec, V, probes)` judge it. Returns the result dict the runner expects."""
    from . import monitors

    prop = spec["prop"]
    log = core.EventLog()
    d = world.enter_history("%s-%s" % (prop.lower(), spec["h"]))
    results, statuses, probes = [], {}, {}
    aborts = 0
    try:
        with Engine(log) as eng:
            if spec.get("interleave"):
                # schedule exploration: every scenario of the history is prepared (option dispatch)
                # before any of them is computed - the two public phases of several jobs interleaved
                preps = [eng.prepare(job) for job in spec["jobs"]]
                done = [eng.compute(p) for p in preps]
                probes["histories_interleaved"] = 1
            else:
                done = [eng.run_job(job) for job in spec["jobs"]]
            for r in done:
                results.append(r)
                st = r.status.split(":")[0]
                statuses[st] = statuses.get(st, 0) + 1
                if r.status != "ok":
                    aborts += 1
                    k = "abort:" + (r.error_msg or r.status)[:70]
                    probes[k] = probes.get(k, 0) + 1
        V = monitors.Verdicts(prop, {})
        for r in results:
            if r.status == "ok":
                diff = getattr(r, "inputs_changed_before_use", None)
                V.check("prepared_inputs_unchanged", diff is None, {"key": str(diff).split("/")[1] if diff else None},
                        {"first_difference": diff, "iso3": r.job["iso3"], "interleaved": bool(spec.get("interleave"))},
                        "the constants a scenario was configured with changed before its supply series were computed from them")
        nontrivial, evaluations = evaluate(results, spec, V, probes)
        for v in V.violations:
            log.add("MONITOR", clause=v.clause, identity=v.identity)
    finally:
        world.leave_history(d)
    return {
        "violations": [v.to_json() for v in V.violations],
        "evaluations": evaluations,
        "nontrivial": nontrivial,
        "clauses": V.clauses,
        "faults": {"timers_randomised": sum(1 for r in results if r.timers_applied)},
        "probes": probes,
        "statuses": statuses,
        "log_digest": log.digest(),
        "sim_months": sum(r.N for r in results if r.status == "ok"),
        "aborts": aborts,
        "max_resid": V.max_resid,
        "sample": {"jobs": [job_sample(j) for j in spec["jobs"][:6]], "pairs": spec["pairs"], "probes": spec["probes"]},
    }
