"""Sensitivity self-test: run checks against the seeded changes kept under /verif/seeded/.

Each /verif/seeded/<name>/ holds patch.diff (a change to allfed-integrated-model that breaks
one property while compiling and passing the existing tests), a demonstration and meta.json:
    {"property": "C04", "checks": ["C04"], "needs": "...", ...}
The change is applied to a scratch git worktree of /repo (never to /repo itself); the
checks run with VERIF_REPO pointing at it; the worktree is removed afterwards.
"""

import json
import os
import shutil
import subprocess
import sys
import tempfile
import time

from . import core

SEEDED = os.path.join(core.VERIF_DIR, "seeded")


def make_worktree(patch):
    base = os.environ.get("TMPDIR") or tempfile.gettempdir()
    d = tempfile.mkdtemp(prefix="verif-mut-", dir=base)
    os.rmdir(d)
    subprocess.run(["git", "-C", "/repo", "worktree", "add", "--detach", "-f", d, "HEAD"], check=True,
                   stdout=subprocess.DEVNULL, stderr=subprocess.DEVNULL)
    # the scratch copy must contain the working-tree state of /repo (fix: commits are in HEAD already)
    r = subprocess.run(["git", "-C", d, "apply", "--whitespace=nowarn", patch], capture_output=True, text=True)
    if r.returncode != 0:
        remove_worktree(d)
        raise RuntimeError("patch does not apply: %s" % r.stderr[-500:])
    return d


def remove_worktree(d):
    subprocess.run(["git", "-C", "/repo", "worktree", "remove", "--force", d], stdout=subprocess.DEVNULL, stderr=subprocess.DEVNULL)
    shutil.rmtree(d, ignore_errors=True)
    subprocess.run(["git", "-C", "/repo", "worktree", "prune"], stdout=subprocess.DEVNULL, stderr=subprocess.DEVNULL)


def run_check(pid, repo, tier, seed=None, extra_env=None, replay=None, wt=None):
    env = dict(os.environ, VERIF_REPO=repo, VERIF_EVIDENCE_DIR=os.path.join(wt or repo, ".verif-evidence"),
               VERIF_REPLAY_DIR=os.path.join(wt or repo, ".verif-replays"))
    env.update(extra_env or {})
    cmd = [os.path.join(core.VERIF_DIR, "check"), pid, "--tier", tier]
    if seed is not None:
        cmd += ["--seed", str(seed)]
    if replay is not None:
        cmd += ["--replay", replay]
    t0 = time.monotonic()
    p = subprocess.run(cmd, env=env, capture_output=True, text=True, cwd=core.VERIF_DIR)
    lines = [l for l in p.stdout.splitlines() if l.startswith("VIOLATION") or l.startswith("violation:") or l.startswith("HARNESS")]
    return p.returncode, lines, time.monotonic() - t0, p.stdout[-3000:] + p.stderr[-1500:]


def main(tier, seed, names):
    names = names or sorted(n for n in os.listdir(SEEDED) if os.path.exists(os.path.join(SEEDED, n, "patch.diff")))
    rows = []
    missed = 0
    for name in names:
        mdir = os.path.join(SEEDED, name)
        meta = json.load(open(os.path.join(mdir, "meta.json")))
        checks = meta.get("checks")
        if checks is None:
            checks = [meta["property"]]
        if not checks:
            print("  %-28s no check expected to catch it (see meta.json)" % name)
            rows.append((name, meta["property"], "not expected", meta.get("needs_to_manifest", "")[:200]))
            continue
        try:
            wt = make_worktree(os.path.join(mdir, "patch.diff"))
        except Exception as e:
            print("  %s: cannot build scratch worktree: %s" % (name, e))
            rows.append((name, meta["property"], "n/a", "worktree failed"))
            missed += 1
            continue
        try:
            for pid in checks:
                rc, lines, wall, tail = run_check(pid, wt, tier, wt=wt)
                caught = rc == 1 and any(l.startswith("VIOLATION") for l in lines)
                first = next((l for l in lines if l.startswith("violation:")), "")
                print("  %-28s %s exit=%d %.0fs %s %s" % (name, pid, rc, wall, "CAUGHT" if caught else "MISSED", first[:160]), flush=True)
                rows.append((name, pid, "caught" if caught else "missed (exit %d)" % rc, first[:200]))
                if not caught:
                    missed += 1
                    print(tail[-1200:])
                elif os.environ.get("VERIF_SELFTEST_REPLAY", "1") == "1":
                    # the replay file of the first violation, in a fresh process: must fail the same way on the
                    # changed tree and must NOT fail on the unchanged one
                    rp = next(l.split("replay=", 1)[1].strip() for l in lines if l.startswith("VIOLATION"))
                    rc1, l1, w1, _t = run_check(pid, wt, tier, replay=rp, wt=wt)
                    rc0, l0, w0, _t = run_check(pid, "/repo", tier, replay=rp, wt=wt)
                    ok = rc1 == 1 and rc0 == 0
                    print("  %-28s %s replay: changed tree exit=%d (%.0fs), unchanged tree exit=%d (%.0fs) %s"
                          % (name, pid, rc1, w1, rc0, w0, "OK" if ok else "REPLAY-MISMATCH"), flush=True)
                    rows.append((name, pid, "replay ok" if ok else "replay mismatch (changed %d, unchanged %d)" % (rc1, rc0), rp))
                    if not ok:
                        missed += 1
        finally:
            remove_worktree(wt)
    os.makedirs(os.path.join(core.VERIF_DIR, "selftest"), exist_ok=True)
    with open(os.path.join(core.VERIF_DIR, "selftest", "mutants.jsonl"), "a") as f:
        for r in rows:
            f.write(json.dumps({"tier": tier, "seeded": r[0], "check": r[1], "result": r[2], "first_violation": r[3],
                                "repo_head": subprocess.run(["git", "-C", "/repo", "rev-parse", "--short", "HEAD"], capture_output=True, text=True).stdout.strip()}) + "\n")
    print("selftest mutants: %d runs, %d missed" % (len(rows), missed))
    return 0 if missed == 0 else 1
