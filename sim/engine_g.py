"""Engine G: the REAL multi-country coordinator
    ScenarioRunnerNoTrade.run_model_no_trade
      -> get_countries_to_run_and_skip, apply_custom_parameters, verify_country_data,
         fill_data_for_map, the aggregation loop
with the per-country worker `run_optimizer_for_country` behind a seam:

  mode "stub": the worker is replaced by a seeded stub that returns
               (ratio, "stub description", StubResult) with the ratio the spec dictates
               (0, (0,1), 1, >1, NaN = failed-worker fault F13);
  mode "real": the real worker runs (inside engine_p.Sim, so result files go to scratch)
               behind a recording wrapper that notes what crossed the boundary.

Nothing under /repo is edited: the class attribute is replaced inside the forked child and
restored afterwards. Every crossing of the boundary is appended to the event log.
"""

import copy
import math
import traceback

import numpy as np

from . import core, world

WORKER = "run_optimizer_for_country"


class StubResult:
    """Sentinel standing in for the Interpreter object of one (call, country)."""

    def __init__(self, call_no, iso3, ratio):
        self.call_no = call_no
        self.iso3 = iso3
        self.percent_people_fed = ratio * 100

    def __repr__(self):
        return "StubResult(call=%d,%s)" % (self.call_no, self.iso3)


def decode_ratio(x):
    """Ratios are stored JSON-safe in a spec: numbers, or the strings 'nan' / 'inf'."""
    return float(x)


def encode_ratio(x):
    x = float(x)
    if math.isnan(x):
        return "nan"
    return x


def ratio_class(r):
    if r != r:
        return "nan"
    if r == 0:
        return "zero"
    if r < 1:
        return "between"
    if r == 1:
        return "one"
    return "above_one"


class Crossing:
    """One crossing of the coordinator -> worker boundary."""

    __slots__ = ("iso3", "name", "population", "row_overrides_ok", "ratio", "description", "result",
                 "result_percent", "result_pop", "raised")

    def __init__(self):
        self.raised = None
        self.result = None
        self.ratio = None
        self.description = None
        self.result_percent = None
        self.result_pop = None


class WorkerSeam:
    """Replaces ScenarioRunnerNoTrade.run_optimizer_for_country for the duration of a
    `with` block. `begin(...)` arms it for one coordinator call."""

    def __init__(self, log):
        self.log = log
        self.crossings = []
        self.mode = None
        self.ratios = None
        self.default_ratio = 0.5
        self.ratio_type = "float"
        self.overrides = {}
        self.call_no = -1
        self.raise_once = set()
        self._raised = set()
        self._saved = None

    def __enter__(self):
        cls = world.mods().rmnt.ScenarioRunnerNoTrade
        self._saved = cls.__dict__[WORKER]
        seam = self
        orig = self._saved

        def run_optimizer_for_country(runner, country_data, scenario_option, create_pptx_with_all_countries,
                                      show_country_figures, save_all_results, figure_save_postfix="",
                                      title="Untitled"):
            c = Crossing()
            c.iso3 = str(country_data["iso3"])
            c.name = str(country_data["country"])
            c.population = float(country_data["population"])
            c.row_overrides_ok = all(
                (k not in country_data) or float(country_data[k]) == float(v) for k, v in seam.overrides.items()
            )
            seam.crossings.append(c)
            if seam.mode == "stub" and c.iso3 in seam.raise_once and c.iso3 not in seam._raised:
                # transient worker failure: the first visit of this country raises (solver process died, I/O error
                # on its result file); fail-stop for the coordinator - unless it chooses to carry on
                seam._raised.add(c.iso3)
                c.raised = "RuntimeError"
                seam.log.add("FAULT", kind="worker_exception", at=len(seam.crossings) - 1, iso3=c.iso3)
                raise RuntimeError("simulated transient failure of the per-country worker")
            if seam.mode == "stub":
                r = decode_ratio(seam.ratios.get(c.iso3, seam.default_ratio))
                c.ratio = r
                c.description = "stub description"
                c.result = StubResult(seam.call_no, c.iso3, r)
                c.result_percent = c.result.percent_people_fed
                if r != r:
                    seam.log.add("FAULT", kind="worker_failed", at=len(seam.crossings) - 1, iso3=c.iso3)
                seam.log.add("SEAM", seam="worker", name=c.iso3, index=len(seam.crossings) - 1,
                             population=c.population, ratio=r)
                out_ratio = np.float64(r) if seam.ratio_type == "np" else r
                return (out_ratio, c.description, c.result)
            try:
                out = orig(runner, country_data, scenario_option, create_pptx_with_all_countries,
                           show_country_figures, save_all_results, figure_save_postfix, title=title)
            except BaseException as e:
                c.raised = type(e).__name__
                seam.log.add("SEAM", seam="worker", name=c.iso3, index=len(seam.crossings) - 1,
                             population=c.population, raised=c.raised)
                raise
            c.ratio = float(out[0])
            c.description = out[1]
            c.result = out[2]
            c.result_percent = float(out[2].percent_people_fed)
            consts = getattr(out[2], "constants", None)
            if isinstance(consts, dict) and "POP" in consts:
                c.result_pop = float(consts["POP"])
            seam.log.add("SEAM", seam="worker", name=c.iso3, index=len(seam.crossings) - 1,
                         population=c.population, ratio=c.ratio)
            return out

        setattr(cls, WORKER, run_optimizer_for_country)
        return self

    def __exit__(self, *a):
        setattr(world.mods().rmnt.ScenarioRunnerNoTrade, WORKER, self._saved)
        return False

    def begin(self, call_no, mode, ratios=None, default_ratio=0.5, ratio_type="float", overrides=None, raise_once=()):
        self.raise_once = set(raise_once or ())
        self._raised = set()
        self.call_no = call_no
        self.mode = mode
        self.ratios = ratios or {}
        self.default_ratio = default_ratio
        self.ratio_type = ratio_type
        self.overrides = dict(overrides or {})
        self.crossings = []


class CallOutcome:
    def __init__(self):
        self.status = None
        self.error = None
        self.trace = None
        self.world = None
        self.net_pop = None
        self.net_pop_fed = None
        self.results = None
        self.crossings = []
        self.options_after = None


def call_coordinator(runner, seam, log, call_no, call, mode):
    """One public call of the real coordinator. `call` is the JSON spec of the call."""
    options = copy.deepcopy(call["options"])
    selection = list(call["selection"])
    overrides = {k: v for k, v in call.get("overrides", {}).items()}
    options.update(overrides)
    rs = call.get("ratios") or {}
    seam.begin(call_no, mode, ratios=rs.get("by_code"), default_ratio=rs.get("default", 0.5),
               ratio_type=call.get("ratio_type", "float"), overrides=overrides, raise_once=rs.get("raise_once"))
    log.add("CALL_START", call=call_no, mode=mode, selection=core.digest(selection), options=core.digest(options),
            return_results=bool(call.get("return_results", True)))
    o = CallOutcome()
    try:
        with world.quiet():
            out = runner.run_model_no_trade(
                title=call.get("title", "untitled"),
                create_pptx_with_all_countries=False,
                show_country_figures=False,
                show_map_figures=False,
                add_map_slide_to_pptx=False,
                scenario_option=options,
                countries_list=selection,
                return_results=bool(call.get("return_results", True)),
            )
        o.world, o.net_pop, o.net_pop_fed, o.results = out[0], out[1], out[2], out[3]
        o.status = "ok"
    except world.SimAbort:
        o.status = "aborted"
    except SystemExit as e:
        o.status = "raised:SystemExit"
        o.error = "SystemExit(%r)" % (e.code,)
    except BaseException as e:  # noqa
        o.status = "raised:" + type(e).__name__
        o.error = "%s: %s" % (type(e).__name__, " ".join(str(e).split())[:200])
        o.trace = traceback.format_exc(limit=6)[-1200:]
    o.crossings = list(seam.crossings)
    o.options_after = options
    o.selection_after = selection
    log.add("CALL_END", call=call_no, status=o.status, crossings=len(o.crossings),
            net_pop=None if o.net_pop is None else float(o.net_pop),
            net_pop_fed=None if o.net_pop_fed is None else float(o.net_pop_fed),
            results=None if o.results is None else len(o.results))
    return o
