"""Engine P: the real pipeline (option dispatch -> parameters -> three LP rounds ->
extract/interpret/validate) run inside the simulated world, with capture wrappers that
record what the monitors need. Nothing under /repo is edited: wrappers are installed on
the imported classes at run time and removed afterwards.

A *history* is a list of job specs executed one after another in one process.
"""

import copy
import os
import traceback

import numpy as np

from . import core, world


# --------------------------------------------------------------------------- capture
class Trace:
    """Everything recorded about one job."""

    def __init__(self, spec):
        self.spec = spec
        self.rounds = []  # one dict per Optimizer instance, in creation order
        self.first = None  # outputs of compute_parameters_first_round
        self.first_series = None  # copies of the supply series at that instant
        self.second = None
        self.third = None
        self.herds = []  # CalculateFeedAndMeat captures
        self.herd_links = []  # (herd index, snapshot of the time_consts meat/milk it produced)
        self.min_needs = []  # calculate_human_consumption_for_min_needs calls
        self.retime = []  # get_second_round_kcals_with_redistributed_meat calls
        self.bump = []  # increase_biofuels_then_feed calls
        self.csv = []  # (path, returned series, read-back frame)
        self.status = None
        self.error = None
        self.result = None
        self.results = {}
        self.digest = None
        self.probes = {}

    def probe(self, k, n=1):
        self.probes[k] = self.probes.get(k, 0) + n


def _food_kcals(f):
    return np.array(f.kcals, dtype=float).copy()


def _var_values(variables):
    out = {}
    for k, v in variables.items():
        if isinstance(v, list):
            arr = np.zeros(len(v))
            modelled = False
            for i, x in enumerate(v):
                if hasattr(x, "varValue"):
                    modelled = True
                    arr[i] = np.nan if x.varValue is None else x.varValue
                else:
                    arr[i] = float(x)
            out[k] = arr
            out["_modelled_" + k] = modelled
        elif hasattr(v, "varValue"):
            out[k] = np.nan if v.varValue is None else float(v.varValue)
    return out


CSV_COLS = [
    ("fish", "fish_kcals_equivalent"),
    ("cell_sugar", "cell_sugar_kcals_equivalent"),
    ("scp", "scp_kcals_equivalent"),
    ("greenhouse", "greenhouse_kcals_equivalent"),
    ("seaweed", "seaweed_kcals_equivalent"),
    ("milk", "milk_kcals_equivalent"),
    ("meat", "meat_kcals_equivalent"),
    ("immediate_outdoor_crops", "immediate_outdoor_crops_kcals_equivalent"),
    ("new_stored_outdoor_crops", "new_stored_outdoor_crops_kcals_equivalent"),
    ("stored_food", "stored_food_kcals_equivalent"),
]

PCT_SERIES = ["stored_food", "outdoor_crops", "seaweed", "cell_sugar", "scp", "greenhouse", "fish", "meat", "milk",
              "immediate_outdoor_crops", "new_stored_outdoor_crops"]


def snapshot_interp(interp):
    s = {"percent_people_fed": float(interp.percent_people_fed)}
    for col, attr in CSV_COLS:
        s[col] = _food_kcals(getattr(interp, attr))
    for name in PCT_SERIES:
        s["pct_" + name] = _food_kcals(getattr(interp, name))
    s["pct_sum"] = _food_kcals(interp.to_humans_fed_sum)
    s["feed_sum"] = _food_kcals(interp.feed_sum_kcals_equivalent)
    s["biofuels_sum"] = _food_kcals(interp.biofuels_sum_kcals_equivalent)
    for pre in ["cell_sugar", "scp", "seaweed", "outdoor_crops", "stored_food"]:
        s["feed_" + pre] = _food_kcals(getattr(interp, pre + "_feed_kcals_equivalent"))
        s["biofuels_" + pre] = _food_kcals(getattr(interp, pre + "_biofuels_kcals_equivalent"))
    return s


class Capture:
    """Installs wrappers; `self.trace` is the trace of the job currently running."""

    def __init__(self, fs=None):
        self.trace = None
        self.fs = fs
        self._saved = []
        self.buggify = {}  # site -> True
        self.buggify_hits = {}
        self.current_rec = None  # record of the round whose optimize_* call is running
        self.capture_first_model = False  # keep the matrix form of the first LP each round hands to the solver

    def observe_solve(self, lp, idx):
        rec = self.current_rec
        if self.capture_first_model and rec is not None and "own_model" not in rec:
            from . import lpsolve

            _vs, c, c0, A_ub, b_ub, A_eq, b_eq, bounds = lpsolve.pulp_to_matrix(lp)
            rec["own_model"] = {"c": c, "c0": float(c0 or 0.0), "A_ub": A_ub, "b_ub": b_ub, "A_eq": A_eq, "b_eq": b_eq,
                                "bounds": bounds, "maximize": lp.sense == -1}

    def _wrap(self, owner, name, make):
        orig = owner.__dict__[name]
        raw = orig.__func__ if isinstance(orig, (staticmethod, classmethod)) else orig
        new = make(raw)
        self._saved.append((owner, name, orig))
        setattr(owner, name, staticmethod(new) if isinstance(orig, staticmethod) else new)

    def uninstall(self):
        for owner, name, orig in reversed(self._saved):
            setattr(owner, name, orig)
        self._saved = []

    def install(self):
        m = world.mods()
        cap = self

        # ---- Optimizer
        def mk_init(orig):
            def __init__(self, consts, time_consts):
                orig(self, consts, time_consts)
                t = cap.trace
                if t is not None:
                    rec = {
                        "index": len(t.rounds),
                        "consts": copy.deepcopy(consts),
                        "time_consts": copy.deepcopy(time_consts),
                        "type": None,
                    }
                    self._verif_rec = rec
                    t.rounds.append(rec)

            return __init__

        self._wrap(m.opt.Optimizer, "__init__", mk_init)

        def mk_opt(kind):
            def mk(orig):
                def run(self, consts, time_consts, *a):
                    rec = getattr(self, "_verif_rec", None)
                    if rec is not None:
                        rec["type"] = kind
                        if a:
                            rec["min_human"] = {k: _food_kcals(v) for k, v in a[0].items()}
                            rec["min_human_units"] = {k: v.kcals_units for k, v in a[0].items()}
                    cap.current_rec = rec
                    try:
                        out = orig(self, consts, time_consts, *a)
                    finally:
                        cap.current_rec = None
                    if rec is not None:
                        model, variables, _mc, pct = out
                        rec["vars"] = _var_values(variables)
                        rec["optimum"] = float(pct)
                        rec["status"] = model.status
                        rec["n_constraints"] = len(model.constraints)
                    return out

                return run

            return mk

        self._wrap(m.opt.Optimizer, "optimize_to_humans", mk_opt("to_humans"))
        self._wrap(m.opt.Optimizer, "optimize_feed_to_animals", mk_opt("to_animals"))

        # ---- Interpreter: snapshot at return + CSV read back
        def mk_interp(orig):
            def interpret_results(self, extracted_results, title="Untitled"):
                nwrites = len(cap.fs.writes) if cap.fs else 0
                out = orig(self, extracted_results, title)
                t = cap.trace
                if t is not None and t.rounds:
                    rec = t.rounds[-1]
                    rec["interp"] = snapshot_interp(out)
                    rec["title"] = title
                    wrote = cap.fs.writes[-1][1] if (cap.fs and len(cap.fs.writes) > nwrites) else None
                    if cap.fs and title != "Untitled":
                        # the DOCUMENTED place of the table is read back, whatever route the bytes took to get there
                        # (directly, or through a temporary file that is renamed)
                        import re as _re

                        exp = os.path.join(m.ir.repo_root, "results", _re.sub(r'[\\/*?:"<>|\n]', "_", title) + "_ykcals.csv")
                        rec["csv_path"] = exp
                        rec["csv_text"] = _read_text(exp)
                        rec["csv_written_path"] = wrote
                    elif wrote is not None:
                        rec["csv_path"] = wrote
                        rec["csv_text"] = _read_text(wrote)
                return out

            return interpret_results

        self._wrap(m.ir.Interpreter, "interpret_results", mk_interp)

        # ---- Parameters
        def mk_first(orig):
            def compute_parameters_first_round(self, ci, tci, loader):
                out = orig(self, ci, tci, loader)
                t = cap.trace
                if t is not None:
                    t.first = {
                        "consts": out[0],
                        "time_consts": out[1],
                        "feed_demand": _food_kcals(out[4]),
                        "feed_demand_units": out[4].kcals_units,
                        "biofuels_demand": _food_kcals(out[5]),
                        "biofuels_demand_units": out[5].kcals_units,
                        "inputs": copy.deepcopy(ci),
                        "herd0": out[6],
                    }
                    from . import monitors

                    try:
                        t.first_series = monitors.supply_series(out[1], out[0])
                    except (KeyError, AttributeError, TypeError):
                        t.first_series = None
                return out

            return compute_parameters_first_round

        self._wrap(m.par.Parameters, "compute_parameters_first_round", mk_first)

        def mk_second(orig):
            def compute_parameters_second_round(self, ci, co1, tc1, ir1):
                out = orig(self, ci, co1, tc1, ir1)
                t = cap.trace
                if t is not None:
                    t.second = {"skipped": out[0] is None}
                    t.probe("round2_skipped" if out[0] is None else "round2_run")
                return out

            return compute_parameters_second_round

        self._wrap(m.par.Parameters, "compute_parameters_second_round", mk_second)

        def mk_third(orig):
            def compute_parameters_third_round(self, ci, co1, co2, tc1, tc2, ir1, ir2, fb, fd, bd, fmo1):
                t = cap.trace
                pre = None
                if t is not None:
                    pre = {
                        "ir2_feed_kcals_equiv": _food_kcals(ir2.feed_sum_kcals_equivalent) if tc2 is not None else None,
                        "ir2_biofuel_kcals_equiv": _food_kcals(ir2.biofuels_sum_kcals_equivalent),
                        "round2_present": tc2 is not None,
                        "round1_present": ir1 is not None,
                    }
                out = orig(self, ci, co1, co2, tc1, tc2, ir1, ir2, fb, fd, bd, fmo1)
                if t is not None:
                    pre["feed"] = _food_kcals(out[1]["feed"])
                    pre["biofuel"] = _food_kcals(out[1]["biofuel"])
                    pre["feed_units"] = out[1]["feed"].kcals_units
                    t.third = pre
                return out

            return compute_parameters_third_round

        self._wrap(m.par.Parameters, "compute_parameters_third_round", mk_third)

        def mk_minneeds(orig):
            def calculate_human_consumption_for_min_needs(self, ci, ir1, extra_meat):
                out = orig(self, ci, ir1, extra_meat)
                t = cap.trace
                if t is not None:
                    t.min_needs.append(
                        {
                            "threshold": float(ci["MINIMUM_PERCENT_FED_BEFORE_NONHUMAN_CONSUMPTION_ALLOWED"]),
                            "kcals_daily": float(ci["NUTRITION"]["KCALS_DAILY"]),
                            "round1_percent": float(ir1.percent_people_fed),
                            "round1": {
                                "fish": _food_kcals(ir1.fish_kcals_equivalent),
                                "meat": _food_kcals(ir1.meat_kcals_equivalent),
                                "dairy": _food_kcals(ir1.milk_kcals_equivalent),
                                "greenhouse": _food_kcals(ir1.greenhouse_kcals_equivalent),
                                "outdoor_crops": _food_kcals(ir1.immediate_outdoor_crops_kcals_equivalent)
                                + _food_kcals(ir1.new_stored_outdoor_crops_kcals_equivalent),
                                "stored_food": _food_kcals(ir1.stored_food_kcals_equivalent),
                                "methane_scp": _food_kcals(ir1.scp_kcals_equivalent),
                                "cellulosic_sugar": _food_kcals(ir1.cell_sugar_kcals_equivalent),
                                "seaweed": _food_kcals(ir1.seaweed_kcals_equivalent),
                            },
                            "result": {k: _food_kcals(v) for k, v in out.items()},
                            "result_order": list(out.keys()),
                            "result_units": {k: v.kcals_units for k, v in out.items()},
                        }
                    )
                return out

            return calculate_human_consumption_for_min_needs

        self._wrap(m.par.Parameters, "calculate_human_consumption_for_min_needs", mk_minneeds)

        def mk_retime(orig):
            def get_second_round_kcals_with_redistributed_meat(self, r1, r2, milk1, milk2):
                a1, a2 = np.array(r1, float).copy(), np.array(r2, float).copy()
                if cap.buggify.get("round2_skip") and cap.trace is not None:
                    cap.buggify_hits["round2_skip"] = cap.buggify_hits.get("round2_skip", 0) + 1
                    cap.trace.probe("buggify_round2_skip")
                    return None
                if cap.buggify.get("meat_lower") and cap.trace is not None and len(a2) > 6 and a2.sum() > 0:
                    # legal environment variation: same round-2 total, but later in time, so
                    # that some months are below round 1 (exercises the re-timing helper)
                    cap.buggify_hits["meat_lower"] = cap.buggify_hits.get("meat_lower", 0) + 1
                    k = len(a2) // 3
                    moved = 0.5 * a2[:k].sum()
                    a2 = a2.copy()
                    a2[:k] *= 0.5
                    a2[-1] += moved
                    r2 = a2.copy()
                out = orig(self, r1, r2, milk1, milk2)
                t = cap.trace
                if t is not None:
                    t.retime.append({"round1": a1, "round2": a2, "result": None if out is None else np.array(out, float).copy()})
                    if out is not None and np.any(a2 < a1 - 1e-9):
                        t.probe("retime_moved_meat")
                return out

            return get_second_round_kcals_with_redistributed_meat

        self._wrap(m.par.Parameters, "get_second_round_kcals_with_redistributed_meat", mk_retime)

        def mk_bump(orig):
            def increase_biofuels_then_feed(self, biofuel, feed, increase, max_biofuel, max_feed, total):
                args = [np.array(x, float).copy() for x in (biofuel, feed, increase, max_biofuel, max_feed, total)]
                out = orig(self, biofuel, feed, increase, max_biofuel, max_feed, total)
                t = cap.trace
                if t is not None:
                    t.bump.append(
                        {
                            "biofuel": args[0], "feed": args[1], "increase": args[2], "max_biofuel": args[3],
                            "max_feed": args[4], "total": args[5],
                            "out_biofuel": np.array(out[0], float).copy(), "out_feed": np.array(out[1], float).copy(),
                            "rounds_before": len(t.rounds),
                        }
                    )
                return out

            return increase_biofuels_then_feed

        self._wrap(m.par.Parameters, "increase_biofuels_then_feed", mk_bump)

        def mk_breed(orig):
            def init_meat_and_dairy_and_feed_from_breeding(self, ci, fmo, fb, mad, co, tc):
                out = orig(self, ci, fmo, fb, mad, co, tc)
                t = cap.trace
                if t is not None:
                    hidx = None
                    for i, h in enumerate(t.herds):
                        if h["obj"] is fmo:
                            hidx = i
                    t.herd_links.append(
                        {
                            "herd": hidx,
                            "meat": _food_kcals(out[2]["each_month_meat_slaughtered"]),
                            "meat_units": out[2]["each_month_meat_slaughtered"].kcals_units,
                            "milk": np.array(out[2]["milk_kcals"], float).copy(),
                            "meat_sum": float(out[3]["meat_summed_consumption"]),
                            "feed_used": _food_kcals(out[0]),
                            "running": np.array(out[2]["max_consumed_culled_kcals_each_month"], float).copy(),
                        }
                    )
                return out

            return init_meat_and_dairy_and_feed_from_breeding

        self._wrap(m.par.Parameters, "init_meat_and_dairy_and_feed_from_breeding", mk_breed)

        # ---- herd simulation
        def mk_herd(orig):
            def __init__(self, country_code, available_feed, available_grass, scenario, kcals_per_head_meat_dict,
                         constants_inputs=None):
                feed = _food_kcals(available_feed)
                grass = _food_kcals(available_grass)
                orig(self, country_code, available_feed, available_grass, scenario, kcals_per_head_meat_dict,
                     constants_inputs)
                t = cap.trace
                if t is not None:
                    t.herds.append(
                        {
                            "obj": self,
                            "country": country_code,
                            "scenario": scenario,
                            "feed_in": feed,
                            "feed_units": available_feed.kcals_units,
                            "grass_in": grass,
                            "per_head": dict(kcals_per_head_meat_dict) if kcals_per_head_meat_dict else None,
                            "feed_used": _food_kcals(self.feed_used),
                            "grass_used": _food_kcals(self.grass_used),
                            "animals": [
                                {
                                    "type": a.animal_type,
                                    "size": a.animal_size,
                                    "slaughter": np.array(a.slaughter, float).copy(),
                                    "population": np.array(a.population, float).copy(),
                                }
                                for a in self.all_animals
                            ],
                        }
                    )

            return __init__

        self._wrap(m.ap.CalculateFeedAndMeat, "__init__", mk_herd)


def _read_text(path):
    try:
        with open(path) as f:
            return f.read()
    except OSError as e:
        return None


# --------------------------------------------------------------------------- the simulated world of one history
class Sim:
    """World + capture for one history (one process)."""

    def __init__(self, rng, log, solver_mode="cbc", use_clock=True, capture=True):
        self.capture = capture
        self.rng = rng
        self.log = log
        self.clock = world.SimClock(rng.sub("clock"), log=log)
        self.fs = world.SimFS(log=log)
        self.tables = world.TableReads(log=log)
        self.solver = world.SimSolver(solver_mode, rng.sub("vertex"), log=log, clock=self.clock)
        self.cap = Capture(fs=self.fs)
        self.solver.observer = self.cap.observe_solve
        self.use_clock = use_clock

    def __enter__(self):
        if self.use_clock:
            self.clock.install()
        self.fs.install()
        self.tables.install()
        self.solver.install()
        if self.capture:
            self.cap.install()
        return self

    def __exit__(self, *a):
        self.cap.uninstall()
        self.solver.uninstall()
        self.tables.uninstall()
        self.fs.uninstall()
        if self.use_clock:
            self.clock.uninstall()
        return False

    # fault plan for the next job: indices are relative to the job start
    def plan_job_faults(self, faults):
        """faults: list of dicts {seam: solve|write|read|clock|abort, at: k, kind: ...}"""
        self._abort_at = None
        self.tables.start_job()
        for f in faults or []:
            s = f["seam"]
            if s == "solve":
                self.solver.plan[self.solver.count + f["at"]] = f["kind"]
            elif s == "write":
                self.fs.plan[len(self.fs.writes) + f["at"]] = (f["kind"], f.get("k", 10))
            elif s == "read":
                if "name" in f:
                    self.tables.plan[(f["name"], f.get("nth", 0))] = f["kind"]
                else:
                    self.tables.plan[self.tables.count + f["at"]] = f["kind"]
            elif s == "clock":
                import datetime as dt

                if f["kind"] == "jump":
                    self.clock.script[self.clock.reads + f["at"]] = ("jump", dt.timedelta(seconds=f["seconds"]))
                else:
                    self.clock.script[self.clock.reads + f["at"]] = ("set", dt.datetime(*f["to"]))
            elif s == "abort":
                self._abort_at = f["at"]

    def run_job(self, spec, faults=None, via="no_trade"):
        """Run one job; returns its Trace (status ok | raised:<type> | aborted)."""
        m = world.mods()
        t = Trace(spec)
        self.cap.trace = t
        self.fs.job_tag = spec.get("tag")
        self.plan_job_faults(faults)
        self.log.add("JOB_START", spec=core.digest(spec), iso3=spec["iso3"])
        options = copy.deepcopy(spec["options"])
        t.options_before = copy.deepcopy(options)
        try:
            with world.quiet():
                ctxm = world.AbortInjector(self._abort_at, self.log) if self._abort_at else _Null()
                self._last_injector = ctxm
                with ctxm:
                    if spec["iso3"] == "WOR":
                        runner = m.rs.ScenarioRunner()
                        cfp, tcfp, loader = runner.set_depending_on_option(options)
                        res = runner.run_and_analyze_scenario(
                            cfp, tcfp, loader, False, False, "_world", None, False, "world", "WOR",
                            title=spec.get("title", "untitled"),
                        )
                        t.result = res
                    else:
                        runner = m.rmnt.ScenarioRunnerNoTrade()
                        out = runner.run_model_no_trade(
                            title=spec.get("title", "untitled"),
                            create_pptx_with_all_countries=False,
                            show_country_figures=False,
                            show_map_figures=False,
                            add_map_slide_to_pptx=False,
                            scenario_option=options,
                            countries_list=list(spec.get("countries") or [spec["iso3"]]),
                            return_results=True,
                        )
                        t.no_trade = (out[1], out[2])
                        t.results = out[3]
                        vals = list(out[3].values())
                        t.result = vals[0] if vals else None
            t.status = "ok" if t.result is not None else "empty"
        except world.SimAbort:
            t.status = "aborted"
        except SystemExit as e:
            t.status = "raised:SystemExit"
            t.error = "SystemExit(%r)" % (e.code,)
        except BaseException as e:  # noqa
            t.status = "raised:" + type(e).__name__
            t.error = traceback.format_exc(limit=6)
            t.error_msg = str(e)[:300]
        finally:
            self.cap.trace = None
        t.options_after = options
        # drop this job's unfired fault plan entries so that they cannot hit a later job
        self.solver.plan = {}
        self.fs.plan = {}
        self.tables.plan = {}
        self.clock.script = {}
        t.digest = result_digest(t.result) if t.status == "ok" else None
        self.log.add("JOB_END", status=t.status, digest=t.digest)
        return t


def run_callable(sim, tag, fn, faults=None):
    """Run fn() inside the simulated world with a fault plan; -> (status, value, error message)."""
    sim.fs.job_tag = tag
    sim.plan_job_faults(faults)
    sim.log.add("JOB_START", spec=str(tag), iso3="*")
    status, value, err = "ok", None, None
    try:
        with world.quiet():
            ctxm = world.AbortInjector(sim._abort_at, sim.log) if sim._abort_at else _Null()
            with ctxm:
                value = fn()
    except world.SimAbort:
        status = "aborted"
    except SystemExit as e:
        status, err = "raised:SystemExit", repr(e.code)
    except BaseException as e:  # noqa
        status, err = "raised:" + type(e).__name__, str(e)[:300]
    sim.solver.plan = {}
    sim.fs.plan = {}
    sim.tables.plan = {}
    sim.clock.script = {}
    sim.log.add("JOB_END", status=status, digest=None)
    return status, value, err


class _Null:
    def __enter__(self):
        return self

    def __exit__(self, *a):
        return False


# --------------------------------------------------------------------------- result digest (bit-exact)
def result_series(interp):
    """Every number of a returned Interpreter that the property talks about."""
    out = {"percent_people_fed": float(interp.percent_people_fed)}
    for k, v in sorted(vars(interp).items()):
        if hasattr(v, "kcals") and hasattr(v, "fat"):
            out["food:" + k] = [np.array(v.kcals, float).tolist(), np.array(v.fat, float).tolist(),
                                np.array(v.protein, float).tolist(), v.kcals_units]
    for name in ("meat_dictionary", "animal_population_dictionary"):
        d = getattr(interp, name, None)
        if d is not None:
            out[name] = {k: np.array(val, float).tolist() for k, val in sorted(d.items())}
    for k in ("kcals_fed", "fat_fed", "protein_fed"):
        if hasattr(interp, k):
            out[k] = np.array(getattr(interp, k), float).tolist()
    return out


def result_digest(interp):
    if interp is None:
        return None
    return core.digest(result_series(interp))
