"""Command line: check <ID> [--tier quick|thorough] [--replay FILE] [--seed N]"""

import argparse
import importlib
import os
import sys
import traceback

sys.path.insert(0, os.path.dirname(os.path.dirname(os.path.abspath(__file__))))

from sim import core  # noqa: E402

DEFAULT_SEED = {"quick": 20260926, "thorough": 20260927}


def main(argv):
    ap = argparse.ArgumentParser()
    ap.add_argument("id")
    ap.add_argument("--tier", default=os.environ.get("VERIF_TIER", "quick"), choices=["quick", "thorough"])
    ap.add_argument("--replay")
    ap.add_argument("--seed", type=int)
    ap.add_argument("rest", nargs="*")
    a = ap.parse_args(argv)
    if a.replay:
        a.replay = os.path.abspath(a.replay)
    seed = a.seed if a.seed is not None else int(os.environ.get("VERIF_SEED", DEFAULT_SEED[a.tier]))
    if a.id == "selftest":
        from sim import selftest

        return selftest.main(a.tier, seed, a.rest)
    if a.id == "_alone":
        from sim.checks import c14

        return c14.alone_main(a.rest)
    try:
        mod = importlib.import_module("sim.checks.%s" % a.id.lower())
    except Exception:  # unknown id, or the check module itself is broken: never exit 1 without a VIOLATION line
        print("HARNESS-ERROR cannot load check %s\n%s" % (a.id, traceback.format_exc()))
        return core.EXIT_HARNESS
    from sim import runner

    print("check %s tier=%s VERIF_SEED=%d repo=%s" % (a.id, a.tier, seed, core.REPO_DIR), flush=True)
    try:
        return runner.run_check(mod, a.tier, seed, replay=a.replay)
    except SystemExit:
        raise
    except BaseException:
        print("HARNESS-ERROR property=%s\n%s" % (a.id, traceback.format_exc()))
        return core.EXIT_HARNESS


if __name__ == "__main__":
    sys.exit(main(sys.argv[1:]))
