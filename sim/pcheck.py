"""Shared machinery of the checks that ride on engine P (C01, C02, C03, C04, C05, C18):
history generation (swarm profile, solver mode, buggify subset, fault plan), execution
with a per-property monitor, and shrinking."""

import copy

from . import core, engine_p, monitors, workload, world

SOLVER_FAULTS = ["exec", "status:-1", "status:0", "status:-2", "status:-3", "slow", "iterate:-1", "iterate:0", "iterate:-1"]

BASE_OPTIONS = {
    "scale": "country", "scenario": "no_resilient_foods", "seasonality": "country", "grasses": "baseline",
    "crop_disruption": "zero", "fish": "baseline", "waste": "baseline_in_country", "nutrition": "baseline",
    "intake_constraints": "enabled", "stored_food": "baseline", "ratio_stocks_untouched": "baseline",
    "shutoff": "continued", "cull": "do_eat_culled", "fat": "not_required", "protein": "not_required",
    "meat_strategy": "baseline_breeding",
}


def generate(seed, prop, h, tier, jobs=(2, 3), vertex_p=0.4, fault_p=0.25, fault_seams=("solve",),
             buggify_sites=("round2_skip", "meat_lower"), buggify_p=0.15, threshold_p=0.4, world_p=0.06,
             profile_bias=None, horizons=None, twin_p=0.25):
    rng = core.Rng(seed, prop, h)
    wl = rng.sub("workload")
    profile = workload.swarm_profile(wl)
    if profile_bias:
        for k, v in profile_bias.items():
            if wl.chance(v[0]):
                profile[k] = v[1]
    n = wl.randrange(jobs[0], jobs[1] + 1)
    js = []
    for i in range(n):
        if js and wl.chance(twin_p):
            # same country right after itself with ONE option family changed (same horizon): the adjacency in
            # which state kept from the previous run of that country (caches keyed too coarsely) would show
            j = workload.clone(js[-1])
            table = workload.GLOBAL_VALUES if j["iso3"] == "WOR" else workload.COUNTRY_VALUES
            fam = wl.pick(["shutoff", "shutoff", "waste", "nutrition", "scenario", "meat_strategy", "ratio_stocks_untouched", "cull"])
            vals = [v for v in table[fam] if v != j["options"].get(fam)]
            if vals:
                j["options"][fam] = wl.pick(vals)
            if wl.chance(0.5):
                for k in [k for k in j["options"] if k not in workload.FAMILIES and k != "NMONTHS"]:
                    del j["options"][k]  # and without the numeric overrides of the previous run
        else:
            j = workload.random_job(wl, profile, world_p=world_p, overrides_p=threshold_p,
                                    horizon=wl.pick(horizons) if horizons else None)
        j["tag"] = i
        js.append(j)
    mode = "vertex" if rng.sub("vertex").chance(vertex_p) else "cbc"
    bg = rng.sub("buggify")
    bugg = [s for s in buggify_sites if bg.chance(buggify_p)]
    fr = rng.sub("faults")
    faults = {}
    if fr.chance(fault_p):
        # the faulted job is usually the first one, so that clean jobs follow it in the same process
        ji = 0 if fr.chance(0.7) else fr.randrange(n)
        seam = fr.pick(list(fault_seams))
        if seam == "solve":
            kind = fr.pick(SOLVER_FAULTS)
            at = fr.randrange(9)
            if fr.chance(0.35):
                # the secondary (tie-breaking / smoothing) solves of a round: a solver that stops there with a
                # non-optimal status after writing its iterate is the classic "swallowed failure" spot
                at, kind = fr.pick([1, 2, 2, 5, 7, 8, 8]), fr.pick(["iterate:-1", "iterate:0", "status:-1"])
            elif fr.chance(0.4):
                # the first (main) solve of a round, where a failed solve is most tempting to "retry differently";
                # rounds 2 and 3 carry the hand-offs of the earlier rounds
                at, kind = fr.pick([0, 3, 3, 3, 6, 6]), fr.pick(["exec", "status:-1", "status:0", "status:-2", "iterate:-1"])
            faults[str(ji)] = [{"seam": "solve", "at": at, "kind": kind}]
        elif seam == "write":
            faults[str(ji)] = [{"seam": "write", "at": fr.randrange(3), "kind": fr.pick(["enospc", "eio", "eacces", "short"]), "k": fr.randrange(600)}]
        elif seam == "read":
            faults[str(ji)] = [{"seam": "read", "at": fr.randrange(15), "kind": fr.pick(["enoent", "eio", "parse", "truncated"])}]
            if fr.chance(0.3):
                faults[str(ji)] = [{"seam": "read", "name": "FAOSTAT_head_and_slaughter.csv", "nth": fr.pick([0, 0, 1, 2]), "kind": "truncated"}]  # head-count table torn
        elif seam == "clock":
            faults[str(ji)] = [{"seam": "clock", "at": fr.randrange(18), "kind": "jump",
                                "seconds": fr.pick([-86400 * 400, -3600, 59, 3600, 86400 * 31])}]
        if fr.chance(0.5):
            # "retry after the failure with one setting changed": the job after the faulted one is the same
            # country again (state kept from a run that never finished would show here)
            t = workload.clone(js[ji])
            table = workload.GLOBAL_VALUES if t["iso3"] == "WOR" else workload.COUNTRY_VALUES
            fam = fr.pick(["waste", "waste", "grasses", "nutrition", "shutoff", "scenario"])
            vals = [v for v in table[fam] if v != t["options"].get(fam)]
            if vals:
                t["options"][fam] = fr.pick(vals)
            if fr.chance(0.5):
                t["options"]["GRASSES_PRODUCTION_MULTIPLIER"] = fr.pick([0.9, 1.03, 1.2])
            t["tag"] = len(js)
            if ji + 1 < len(js):
                t["tag"] = js[ji + 1]["tag"]
                js[ji + 1] = t
            else:
                js.append(t)
    return {"h": h, "prop": prop, "jobs": js, "solver": mode, "buggify": bugg, "faults": faults}


def job_sample(j):
    o = j["options"]
    extra = {k: v for k, v in o.items() if k not in workload.FAMILIES}
    return {"iso3": j["iso3"], "title": j.get("title"), "options": {k: o[k] for k in workload.FAMILIES if k in o}, "extra": extra}


def execute(spec, prop, monitor, nontrivial_fn, end_of_history=None, capture=True, strict_status=False, first_model=False):
    rng = core.Rng("exec", prop, spec["h"], spec.get("salt", 0))
    log = core.EventLog()
    d = world.enter_history("%s-%s" % (prop.lower(), spec["h"]))
    violations, nontrivial, clauses, probes, statuses = [], [], {}, {}, {}
    sim_months, aborts, evaluations = 0, 0, 0
    traces = []
    max_resid = {}
    try:
        with engine_p.Sim(rng, log, solver_mode=spec.get("solver", "cbc"), capture=capture) as sim:
            for s in spec.get("buggify", []):
                sim.cap.buggify[s] = True
            sim.cap.capture_first_model = first_model
            for i, job in enumerate(spec["jobs"]):
                fl = spec.get("faults", {}).get(str(i))
                t = sim.run_job(job, faults=fl)
                traces.append(t)
                st = t.status.split(":")[0]
                statuses[st] = statuses.get(st, 0) + 1
                core.merge_counts(probes, t.probes)
                if t.status != "ok":
                    if not fl:
                        aborts += 1
                        key = "abort:" + (getattr(t, "error_msg", "") or t.status)[:60]
                        probes[key] = probes.get(key, 0) + 1
                    continue
                sim_months += job["options"]["NMONTHS"] * max(1, len(t.herds))
                if fl and any(f.get("kind") == "truncated" for f in fl):
                    # a silently torn table read may legitimately make THIS job's numbers wrong (the repo cannot
                    # detect it); it yields no verdict - the jobs after it are judged as usual
                    probes["faulted_job_without_verdict"] = probes.get("faulted_job_without_verdict", 0) + 1
                    continue
                V = monitors.Verdicts(prop, {"iso3": job["iso3"]})
                monitor(t, V)
                evaluations += 1
                core.merge_counts(clauses, V.clauses)
                for k, r in V.max_resid.items():
                    max_resid[k] = max(max_resid.get(k, 0.0), r)
                for v in V.violations:
                    v.witness = {"job": i, "solver": spec.get("solver"), "faulted": bool(fl), "data": v.witness}
                    violations.append(v.to_json())
                nontrivial.extend(nontrivial_fn(t, spec, i))
            if end_of_history is not None:
                V = monitors.Verdicts(prop, {})
                end_of_history(traces, V, sim.fs.writes)
                core.merge_counts(clauses, V.clauses)
                violations.extend(v.to_json() for v in V.violations)
            for s, n in sim.cap.buggify_hits.items():
                probes["buggify_" + s] = probes.get("buggify_" + s, 0) + n
            core.merge_counts(probes, {"vertex_" + k: v for k, v in sim.solver.vertex_stats.items()})
    finally:
        world.leave_history(d)
    probes["solver_mode_" + spec.get("solver", "cbc")] = 1
    return {
        "violations": violations,
        "evaluations": evaluations,
        "nontrivial": nontrivial,
        "clauses": clauses,
        "faults": core.fault_counts(log),
        "probes": probes,
        "statuses": statuses,
        "log_digest": log.digest(),
        "sim_months": sim_months,
        "aborts": aborts,
        "max_resid": max_resid,
        "sample": {"jobs": [job_sample(j) for j in spec["jobs"]], "solver": spec.get("solver"), "buggify": spec.get("buggify"),
                   "faults": spec.get("faults")},
    }


def shrink(spec):
    jobs = spec["jobs"]
    n = len(jobs)

    def with_jobs(keep):
        s = copy.deepcopy(spec)
        s["jobs"] = [copy.deepcopy(jobs[i]) for i in keep]
        nf = {}
        for ni, oi in enumerate(keep):
            if str(oi) in spec.get("faults", {}):
                nf[str(ni)] = spec["faults"][str(oi)]
        s["faults"] = nf
        return s

    for i in range(n):
        if n > 1:
            yield with_jobs([j for j in range(n) if j != i])
    if spec.get("faults"):
        s = copy.deepcopy(spec)
        s["faults"] = {}
        yield s
    if spec.get("buggify"):
        for b in spec["buggify"]:
            s = copy.deepcopy(spec)
            s["buggify"] = [x for x in spec["buggify"] if x != b]
            yield s
    if spec.get("solver") == "vertex":
        s = copy.deepcopy(spec)
        s["solver"] = "cbc"
        yield s
    for i, j in enumerate(jobs):
        o = j["options"]
        for k in [k for k in o if k not in workload.FAMILIES and k != "NMONTHS"]:
            s = copy.deepcopy(spec)
            del s["jobs"][i]["options"][k]
            yield s
        if o["NMONTHS"] > 48:
            s = copy.deepcopy(spec)
            s["jobs"][i]["options"]["NMONTHS"] = 48
            yield s
        if o.get("scale") == "country":
            for fam, v in BASE_OPTIONS.items():
                if o.get(fam) != v:
                    s = copy.deepcopy(spec)
                    s["jobs"][i]["options"][fam] = v
                    yield s


def components(extra_stub=None):
    return {
        "real": ["option dispatch (Scenarios)", "Parameters (all three rounds)", "Optimizer + PuLP", "CBC binary (cbc mode)",
                 "Extractor / Interpreter / Validator", "herd simulator", "pandas CSV writes into a scratch results dir"],
        "simulated": ["wall clock", "result-file writes (fault injection)", "herd-table reads (fault injection)",
                      "solver seam (fail-stop faults)"],
        "stub": ["CBC replaced by in-process HiGHS choosing a seeded random optimal vertex in `vertex` mode"] + (extra_stub or []),
    }
