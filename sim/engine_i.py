"""Engine I: the 21 import scripts as REAL subprocesses on a scratch copy of src/ + data/.

System under test (real code): every script of scripts/run_all_imports.sh, run exactly as
that file runs it (`python <script>` with cwd = src/import_scripts_no_food_trade), on a copy
of $VERIF_REPO/src and $VERIF_REPO/data made at check time under the scratch root. The
scripts find "the repository" through git.Repo(".", search_parent_directories=True), so
the copy is `git init`-ed; PYTHONPATH points at the copy so that `src.*` resolves to the
copy and never to $VERIF_REPO. Nothing under $VERIF_REPO is written.

Simulated: run order, crash points (torn output files), stale / garbage leftovers in
processed_data/, process environment (hash seed, TZ, locale).

This module holds: the measured dependency DAG, the scratch copy, the fault primitives
(tear / garbage), the byte comparison against the shipped tables and the table audit.
"""

import atexit
import csv
import hashlib
import io
import math
import os
import re
import shutil
import signal
import subprocess
import sys
import tempfile

from . import core

PY = os.environ.get("VERIF_PYTHON") or "/venv/bin/python"
SCRIPT_DIR = "src/import_scripts_no_food_trade"
PROC = "data/no_food_trade/processed_data"
COMBINED = "data/no_food_trade/computer_readable_combined.csv"
SCRIPT_TIMEOUT = 300  # seconds, per script (a full pass takes ~22 s)

# --------------------------------------------------------------------------- documented order
# scripts/run_all_imports.sh at the pinned commit; re-parsed from $VERIF_REPO at check time
# (self_check) so that a change of the documented order is noticed, not silently ignored.
DOC_ORDER = [
    "create_aquaculture_csv.py",
    "create_grasses_baseline_csv.py",
    "create_scp_csv.py",
    "create_biofuel_csv.py",
    "create_greenhouse_csv.py",
    "create_seasonality_csv.py",
    "create_crop_macros_csv.py",
    "create_head_count_csv.py",
    "create_seaweed_csv.py",
    "create_relocation_improvement_csv.py",
    "create_dairy_csv.py",
    "create_meat_csv.py",
    "create_feed_csv.py",
    "create_nuclear_winter_csv.py",
    "create_food_stock_csv.py",
    "create_population_csv.py",
    "create_food_waste_csv.py",
    "create_pulp_csv.py",
    "create_milk_per_animal_csv.py",
    "create_meat_per_animal_csv.py",
    "import_food_data.py",
]
JOIN = "import_food_data.py"

# --------------------------------------------------------------------------- dependency DAG
# MEASURED once (2026-09-26) by running the 21 scripts in the documented order in a scratch
# copy under `strace -f -e trace=openat,open,creat,rename,unlink` and keeping every
# successful open of a path under <copy>/data (reads: O_RDONLY; writes: O_WRONLY|O_CREAT|
# O_TRUNC), cross-checked by reading the scripts. Findings:
#   * every script writes exactly one file and opens it O_TRUNC (np.savetxt opens twice);
#     nothing else under the copy is created, renamed or removed (with
#     PYTHONDONTWRITEBYTECODE=1);
#   * only create_milk_per_animal_csv.py and create_meat_per_animal_csv.py read another
#     script's output (head_count_csv.csv); import_food_data.py reads all twenty;
#   * create_nuclear_winter_csv.py imports the *module* create_crop_macros_csv (class
#     CropMacros: reads the raw production table and Supplemental_Data.xlsx itself), it does
#     NOT read macros_csv.csv - a code dependency, not a file dependency.
# engine_i.trace_run() re-measures this under strace when a spec asks for it.
_XLSX = "data/no_food_trade/raw_data/Integrated Model With No Food Trade.xlsx"
_RAW = "data/no_food_trade/raw_data/"
_SUPP = "data/Supplemental_Data.xlsx"

OUTPUT = {
    "create_aquaculture_csv.py": PROC + "/aquaculture_csv.csv",
    "create_grasses_baseline_csv.py": PROC + "/grasses_baseline_csv.csv",
    "create_scp_csv.py": PROC + "/scp_csv.csv",
    "create_biofuel_csv.py": PROC + "/biofuel_csv.csv",
    "create_greenhouse_csv.py": PROC + "/greenhouse_csv.csv",
    "create_seasonality_csv.py": PROC + "/seasonality_csv.csv",
    "create_crop_macros_csv.py": PROC + "/macros_csv.csv",
    "create_head_count_csv.py": PROC + "/head_count_csv.csv",
    "create_seaweed_csv.py": PROC + "/seaweed_csv.csv",
    "create_relocation_improvement_csv.py": PROC + "/improvement_csv.csv",
    "create_dairy_csv.py": PROC + "/dairy_csv.csv",
    "create_meat_csv.py": PROC + "/meat_csv.csv",
    "create_feed_csv.py": PROC + "/feed_csv.csv",
    "create_nuclear_winter_csv.py": PROC + "/nuclear_winter_csv.csv",
    "create_food_stock_csv.py": PROC + "/food_stock_csv.csv",
    "create_population_csv.py": PROC + "/population_csv.csv",
    "create_food_waste_csv.py": PROC + "/food_waste_csv.csv",
    "create_pulp_csv.py": PROC + "/pulp_csv.csv",
    "create_milk_per_animal_csv.py": PROC + "/milk_per_animal_csv.csv",
    "create_meat_per_animal_csv.py": PROC + "/meat_per_animal_csv.csv",
    "import_food_data.py": COMBINED,
}
RAW_INPUTS = {
    "create_aquaculture_csv.py": [_XLSX],
    "create_grasses_baseline_csv.py": [_XLSX],
    "create_scp_csv.py": [_XLSX],
    "create_biofuel_csv.py": [_XLSX],
    "create_greenhouse_csv.py": [_XLSX],
    "create_seasonality_csv.py": [_XLSX],
    "create_crop_macros_csv.py": [_SUPP, _RAW + "FAOSTAT_food_production_2020.csv"],
    "create_head_count_csv.py": [_RAW + "FAOSTAT_animal_stocks_2020.csv", _RAW + "FAOSTAT_cow_heads_2020.csv"],
    "create_seaweed_csv.py": [_XLSX],
    "create_relocation_improvement_csv.py": [_XLSX],
    "create_dairy_csv.py": [_XLSX],
    "create_meat_csv.py": [_RAW + "FAOSTAT_meat_2020.csv"],
    "create_feed_csv.py": [_XLSX],
    "create_nuclear_winter_csv.py": [_SUPP, _RAW + "FAOSTAT_food_production_2020.csv",
                                     _RAW + "rutgers_nw_production_raw.csv"],
    "create_food_stock_csv.py": [_XLSX],
    "create_population_csv.py": [_XLSX],
    "create_food_waste_csv.py": [_XLSX],
    "create_pulp_csv.py": [_RAW + "FAOSTAT_wood_pulp_2021.csv"],
    "create_milk_per_animal_csv.py": [_XLSX],
    "create_meat_per_animal_csv.py": [_XLSX],
    "import_food_data.py": [],
}
# script -> scripts whose OUTPUT it reads (edges of the DAG)
DEPENDS_ON = {s: [] for s in DOC_ORDER}
DEPENDS_ON["create_milk_per_animal_csv.py"] = ["create_head_count_csv.py"]
DEPENDS_ON["create_meat_per_animal_csv.py"] = ["create_head_count_csv.py"]
DEPENDS_ON[JOIN] = [s for s in DOC_ORDER if s != JOIN]
# code (module import) dependencies, informative only
IMPORTS_MODULE = {"create_nuclear_winter_csv.py": ["create_crop_macros_csv.py"]}

PROCESSED_FILES = [OUTPUT[s] for s in DOC_ORDER if s != JOIN]  # the 20
ALL_OUTPUTS = PROCESSED_FILES + [COMBINED]  # the 21


def consumers(script):
    """Scripts that read `script`'s output, in documented order."""
    return [s for s in DOC_ORDER if script in DEPENDS_ON[s]]


def is_topological(order):
    pos = {s: i for i, s in enumerate(order)}
    return sorted(order) == sorted(DOC_ORDER) and all(pos[d] < pos[s] for s in order for d in DEPENDS_ON[s])


def topological_order(rng):
    """Seeded random linear extension of the DAG (Kahn with a random ready pick)."""
    done, order = set(), []
    left = list(DOC_ORDER)
    while left:
        ready = [s for s in left if all(d in done for d in DEPENDS_ON[s])]
        s = rng.pick(ready)
        order.append(s)
        done.add(s)
        left.remove(s)
    return order


# --------------------------------------------------------------------------- expected countries
# The 164 countries of the no-trade model (property quantifier: "164 x 211 cells"). Written
# down from the shipped table at the pinned commit; equals ImportUtilities.country_codes with
# SWZ -> SWT. Cross-checked at run time against the population table the pipeline derives
# from the spreadsheet's "Population" tab (rows with a code and a population).
EXPECTED_CODES = (
    "AFG ALB DZA AGO ARG ARM AUS AZE BHR BGD BRB BLR BEN BTN BOL BIH BWA BRA BRN BFA MMR BDI CPV KHM "
    "CMR CAN CAF TCD CHL CHN COL COD COG CRI CIV CUB DJI DOM ECU EGY SLV ERI SWT ETH FJI GAB GMB GEO "
    "GHA GTM GIN GNB GUY HTI HND IND IDN IRN IRQ ISR JAM JPN JOR KAZ KEN PRK KOR KWT KGZ LAO LBN LSO "
    "LBR LBY MDG MWI MYS MLI MRT MUS MEX MDA MNG MAR MOZ NAM NPL NZL NIC NER NGA MKD NOR OMN PAK PAN "
    "PNG PRY PER PHL QAT RUS RWA SAU SEN SRB SLE SGP SOM ZAF SSD LKA SDN SUR CHE SYR TWN TJK TZA THA "
    "TGO TTO TUN TUR TKM UGA UKR ARE USA URY UZB VEN VNM YEM ZMB ZWE AUT BEL BGR HRV CYP CZE DNK EST "
    "FIN FRA DEU GRC HUN IRL ITA LVA LTU LUX MLT NLD POL PRT ROU SVK SVN ESP SWE GBR"
).split()
assert len(EXPECTED_CODES) == 164 and len(set(EXPECTED_CODES)) == 164
N_COLUMNS = 211

# --------------------------------------------------------------------------- column classes of the combined table
# Decided by reading import_food_data.py (which tables are joined), the create_* scripts
# (what each column holds) and verify_country_data (which bounds the model itself asserts).
# Only what the property statement promises is demanded:
#   share      - the 12 monthly seasonality shares: each within [0,1], row sum 1 +- 1e-6
#   fraction   - within [0,1]
#   reduction  - >= -1 (tolerance 1e-8: verify_country_data itself accepts -1 - 1e-8)
#   quantity   - >= 0  (stocks: the model accepts -1e-8, so does the audit)
#   free       - only "no missing value / finite number" (flags, exponents)
_MONTHS = ["jan", "feb", "mar", "apr", "may", "jun", "jul", "aug", "sep", "oct", "nov", "dec"]
SHARE_COLS = ["seasonality_m%d" % i for i in range(1, 13)]
FRACTION_COLS = [
    "distribution_loss_crops", "distribution_loss_sugar", "distribution_loss_meat",
    "distribution_loss_dairy", "distribution_loss_seafood",
    "retail_waste_baseline", "retail_waste_price_double", "retail_waste_price_triple",
    "percent_of_global_production", "percent_of_global_capex",  # stored as fractions of 1
    "fraction_crop_area", "max_area_fraction", "new_area_fraction", "initial_built_fraction",
    "initial_seaweed_fraction",
]
REDUCTION_COLS = ["crop_reduction_year%d" % i for i in range(1, 11)] + [
    "grasses_reduction_year%d" % i for i in range(1, 11)]
STOCK_COLS = ["stocks_kcals_%s" % m for m in _MONTHS]
QUANTITY_COLS = [
    "population", "aq_kcals", "aq_fat", "aq_protein", "grasses_baseline", "dairy", "chicken", "pork", "beef",
    "small_animals", "medium_animals", "large_animals", "dairy_cows",
    "biofuel_kcals", "biofuel_fat", "biofuel_protein", "feed_kcals", "feed_fat", "feed_protein",
    "crop_kcals", "crop_fat", "crop_protein",
    "wood_pulp_tonnes", "capex_dollar", "crop_area_1000ha",
    "milk_yield_kg_per_milk_bearing_animal_per_year", "kg_meat_per_pig", "kg_meat_per_chicken",
] + STOCK_COLS
SEAWEED_RE = re.compile(r"^seaweed_growth_per_day_-?\d+$")  # 120 daily growth columns: quantity
FREE_COLS = ["include_greenhouse", "power_law_improvement"]
ID_COLS = ["iso3", "country"]
REDUCTION_TOL = 1e-8
STOCK_TOL = 1e-8
SEASONALITY_TOL = 1e-6
# strings pandas.read_csv (the model's reader) turns into NaN
NA_STRINGS = {"", "#N/A", "#N/A N/A", "#NA", "-1.#IND", "-1.#QNAN", "-NaN", "-nan", "1.#IND", "1.#QNAN", "<NA>",
              "N/A", "NA", "NULL", "NaN", "None", "n/a", "nan", "null"}


def column_class(name):
    if name in ID_COLS:
        return "id"
    if name in SHARE_COLS:
        return "share"
    if name in FRACTION_COLS:
        return "fraction"
    if name in REDUCTION_COLS:
        return "reduction"
    if name in QUANTITY_COLS or SEAWEED_RE.match(name):
        return "quantity"
    if name in FREE_COLS:
        return "free"
    return None


# --------------------------------------------------------------------------- scratch root
_STATE = {"root": None, "owner": None}


def setup_root():
    """Parent, once: $TMPDIR/verif-c17-<pid>-xxxx/, removed at interpreter exit (covers
    histories killed by the watchdog, whose own finally block cannot run) and on SIGTERM.
    Roots left behind by a SIGKILLed earlier run (owner pid gone) are swept here."""
    if _STATE["root"] is None:
        base = os.environ.get("TMPDIR") or "/tmp"
        for name in sorted(os.listdir(base)):
            m = re.match(r"^verif-c17-(\d+)-", name)
            if m and not os.path.exists("/proc/%s" % m.group(1)):
                shutil.rmtree(os.path.join(base, name), ignore_errors=True)
        _STATE["root"] = tempfile.mkdtemp(prefix="verif-c17-%d-" % os.getpid(), dir=base)
        _STATE["owner"] = os.getpid()
        atexit.register(_cleanup_root)
        if signal.getsignal(signal.SIGTERM) == signal.SIG_DFL:
            signal.signal(signal.SIGTERM, _on_term)
    return _STATE["root"]


def _on_term(signum, frame):
    if _STATE["owner"] == os.getpid():
        _cleanup_root()
    signal.signal(signal.SIGTERM, signal.SIG_DFL)
    os.kill(os.getpid(), signal.SIGTERM)


def _cleanup_root():
    if _STATE["root"] and _STATE["owner"] == os.getpid():
        shutil.rmtree(_STATE["root"], ignore_errors=True)
        _STATE["root"] = None


def _pdeathsig():
    """Child dies with the history process (so a killed history leaves no writer behind)."""
    try:
        import ctypes

        ctypes.CDLL("libc.so.6", use_errno=True).prctl(1, signal.SIGKILL)  # PR_SET_PDEATHSIG
    except Exception:  # noqa
        pass


def sha(b):
    return hashlib.sha256(b).hexdigest()


class Scratch:
    """One history's private copy of src/ + data/ (+ scripts/run_all_imports.sh)."""

    def __init__(self, repo=None):
        self.repo = repo or core.REPO_DIR
        base = _STATE["root"] or os.environ.get("TMPDIR") or "/tmp"
        self.dir = tempfile.mkdtemp(prefix="verif-c17-h-", dir=base)
        real = os.path.realpath(self.dir)
        for forbidden in (os.path.realpath(self.repo), os.path.realpath(core.VERIF_DIR), "/repo", "/verif"):
            if real == forbidden or real.startswith(forbidden.rstrip("/") + "/"):
                shutil.rmtree(self.dir, ignore_errors=True)
                raise core.HarnessError("scratch root %s lies inside %s" % (real, forbidden))
        try:
            ign = shutil.ignore_patterns("__pycache__", "*.pyc", ".~lock*")
            shutil.copytree(os.path.join(self.repo, "src"), os.path.join(self.dir, "src"), symlinks=True, ignore=ign)
            shutil.copytree(os.path.join(self.repo, "data"), os.path.join(self.dir, "data"), symlinks=True, ignore=ign)
            os.makedirs(os.path.join(self.dir, "scripts"))
            sh = os.path.join(self.repo, "scripts", "run_all_imports.sh")
            if os.path.exists(sh):
                shutil.copy(sh, os.path.join(self.dir, "scripts", "run_all_imports.sh"))
            p = subprocess.run(["git", "init", "-q", self.dir], stdout=subprocess.DEVNULL, stderr=subprocess.PIPE)
            if p.returncode != 0 or not os.path.isdir(os.path.join(self.dir, ".git")):
                raise core.HarnessError("git init failed in scratch copy: %s" % p.stderr.decode(errors="replace")[-300:])
        except BaseException:
            shutil.rmtree(self.dir, ignore_errors=True)
            raise

    # ---- housekeeping
    def close(self):
        shutil.rmtree(self.dir, ignore_errors=True)
        shutil.rmtree(self.dir.rstrip("/") + "-decoy", ignore_errors=True)

    def __enter__(self):
        return self

    def __exit__(self, *a):
        self.close()

    def path(self, rel):
        return os.path.join(self.dir, rel)

    def read(self, rel):
        try:
            with open(self.path(rel), "rb") as f:
                return f.read()
        except (FileNotFoundError, IsADirectoryError):
            return None

    def write(self, rel, data):
        with open(self.path(rel), "wb") as f:
            f.write(data)

    def mask(self, text):
        return text.replace(self.dir, "<scratch>")

    # ---- self-check of the hard-coded DAG against the tree under test
    def self_check(self):
        problems = []
        sh = self.path("scripts/run_all_imports.sh")
        if os.path.exists(sh):
            with open(sh) as f:
                doc = re.findall(r"^\s*python\s+(\S+\.py)\s*$", f.read(), flags=re.M)
            if doc != DOC_ORDER:
                problems.append("documented order in scripts/run_all_imports.sh differs from the measured one: %s" % doc)
        else:
            problems.append("scripts/run_all_imports.sh missing")
        for s in DOC_ORDER:
            if not os.path.isfile(self.path(SCRIPT_DIR + "/" + s)):
                problems.append("script missing: %s" % s)
            for rel in RAW_INPUTS[s]:
                if not os.path.isfile(self.path(rel)):
                    problems.append("declared input of %s missing: %s" % (s, rel))
        on_disk = sorted(f for f in os.listdir(self.path(SCRIPT_DIR)) if f.endswith(".py") and f != "__init__.py")
        if on_disk != sorted(DOC_ORDER):
            problems.append("scripts on disk differ from the 21 documented ones: %s" % sorted(set(on_disk) ^ set(DOC_ORDER)))
        if not is_topological(DOC_ORDER):
            problems.append("documented order is not a topological order of the measured DAG")
        return problems

    # ---- running a script the way run_all_imports.sh does
    def env(self, skew=None):
        e = {k: v for k, v in os.environ.items() if not k.startswith("VERIF_")}
        e["PYTHONPATH"] = self.dir  # src.* resolves to the copy, never to $VERIF_REPO
        e["PYTHONDONTWRITEBYTECODE"] = "1"
        e["MPLBACKEND"] = "Agg"
        e["PYTHONHASHSEED"] = "0"
        for k in ("OMP_NUM_THREADS", "OPENBLAS_NUM_THREADS", "MKL_NUM_THREADS"):
            e[k] = "1"  # one core per history (the launcher does the same for every check)
        e.pop("GIT_DIR", None)
        e.pop("GIT_WORK_TREE", None)
        for k, v in (skew or {}).items():
            e[k] = str(v)
        if e.get("GIT_DIR") == "@decoy":
            e["GIT_DIR"] = self.decoy_git_dir()
        return e

    def decoy_git_dir(self):
        """An empty git repository next to the scratch copy (no data/, no src/): what GIT_DIR points at when the
        environment is skewed that way."""
        d = self.dir.rstrip("/") + "-decoy"
        if not os.path.isdir(os.path.join(d, ".git")):
            os.makedirs(d, exist_ok=True)
            subprocess.run(["git", "init", "-q", d], stdout=subprocess.DEVNULL, stderr=subprocess.DEVNULL)
        return os.path.join(d, ".git")

    def run(self, script, skew=None, trace=False):
        """-> {"rc": int, "stderr": masked tail, "trace": None | {"reads": [...], "writes": [...]}}"""
        cwd = self.path(SCRIPT_DIR)
        errf = self.path(".stderr.txt")
        cmd = [PY, script]
        tracef = None
        if trace and shutil.which("strace"):
            tracef = self.path(".trace.txt")
            if os.path.exists(tracef):
                os.unlink(tracef)
            cmd = ["strace", "-f", "-qq", "-e", "trace=openat,open,creat", "-o", tracef] + cmd
        for attempt in (0, 1):
            with open(errf, "wb") as ef:
                try:
                    p = subprocess.run(cmd, cwd=cwd, env=self.env(skew), stdin=subprocess.DEVNULL, stdout=subprocess.DEVNULL,
                                       stderr=ef, timeout=SCRIPT_TIMEOUT, preexec_fn=_pdeathsig)
                except subprocess.TimeoutExpired:
                    raise core.HarnessError("script %s exceeded %d s" % (script, SCRIPT_TIMEOUT))
            if tracef and attempt == 0 and (not os.path.exists(tracef) or os.path.getsize(tracef) == 0):
                tracef, cmd = None, [PY, script]  # ptrace not available here: run untraced
                continue
            break
        with open(errf, "rb") as f:
            err = f.read().decode(errors="replace")
        out = {"rc": p.returncode, "stderr": self.mask(err[-1200:]), "trace": None}
        if tracef:
            out["trace"] = self._parse_trace(tracef)
            os.unlink(tracef)
        os.unlink(errf)
        return out

    def _parse_trace(self, tracef):
        reads, writes = set(), set()
        pre = self.dir + "/"
        pat = re.compile(r'(?:openat\(AT_FDCWD, |open\(|creat\()"([^"]*)"(?:, ([A-Z_|]+))?.*\) = (-?\d+)')
        with open(tracef, errors="replace") as f:
            for line in f:
                m = pat.search(line)
                if not m or int(m.group(3)) < 0:
                    continue
                p, flags = m.group(1), m.group(2) or "O_WRONLY"
                if not p.startswith(pre + "data/") or "O_DIRECTORY" in flags:
                    continue
                (writes if ("O_WRONLY" in flags or "O_RDWR" in flags or "O_CREAT" in flags) else reads).add(p[len(pre):])
        return {"reads": sorted(reads), "writes": sorted(writes)}

    # ---- fault primitives
    def wipe_outputs(self):
        for rel in ALL_OUTPUTS:
            try:
                os.unlink(self.path(rel))
            except FileNotFoundError:
                pass

    def tear(self, rel, mode, ppm):
        """Torn write: what a crash of the writer after b bytes leaves behind. -> b or None"""
        data = self.read(rel)
        if data is None:
            return None
        n = len(data)
        if mode == "zero":
            b = 0
        elif mode == "last_byte":
            b = max(0, n - 1)
        elif mode == "line":  # cut exactly at a line boundary: a shorter but well-formed table
            ends = [i + 1 for i, c in enumerate(data) if c == 10]
            b = ends[(len(ends) * ppm) // 1000000] if ends else 0
            if b >= n and len(ends) >= 2:
                b = ends[-2]
        else:  # "byte"
            b = (n * ppm) // 1000000
        self.write(rel, data[:b])
        return b

    def garbage(self, rel, mode, seed, shipped):
        """Stale / garbage content in an output file. `shipped` = {rel: bytes} reference map
        (stale variants are derived from the shipped content). Deterministic in `seed`."""
        rng = core.Rng("C17-garbage", seed, rel, mode)
        base = shipped.get(rel) or b""
        lines = base.split(b"\n")
        if mode == "delete":
            try:
                os.unlink(self.path(rel))
            except FileNotFoundError:
                pass
            return
        if mode == "empty":
            new = b""
        elif mode == "random_bytes":
            new = bytes(rng.randrange(256) for _ in range(1 + rng.randrange(4096)))
        elif mode == "header_only":
            new = lines[0] + b"\n"
        elif mode == "drop_rows":  # an older run with fewer countries
            body = [ln for ln in lines[1:] if ln]
            keep = [ln for ln in body if rng.random() < 0.8]
            new = b"\n".join([lines[0]] + keep) + b"\n"
        elif mode == "dup_row":
            body = [ln for ln in lines[1:] if ln]
            new = base + (rng.pick(body) + b"\n" if body else b"")
        elif mode == "extra_country":
            body = [ln for ln in lines[1:] if ln]
            row = rng.pick(body) if body else b""
            new = base + b"XXX" + row[3:] + b"\n"
        elif mode == "perturb_digit":  # a stale value: one digit of the body changed
            pos = [i for i in range(len(lines[0]) + 1, len(base)) if 48 <= base[i] <= 57]
            if pos:
                i = rng.pick(pos)
                new = base[:i] + bytes([48 + (base[i] - 48 + 1 + rng.randrange(9)) % 10]) + base[i + 1:]
            else:
                new = base + b"0\n"
        elif mode == "other_table":  # leftovers under the wrong name
            others = sorted(k for k in shipped if k != rel and shipped[k])
            new = shipped[rng.pick(others)] if others else b"x\n"
        elif mode == "nan_cells":  # a previous run that left holes
            body = [ln for ln in lines[1:] if ln]
            out = []
            for ln in body:
                cells = ln.split(b",")
                if len(cells) > 2 and rng.random() < 0.3:
                    cells[2 + rng.randrange(len(cells) - 2)] = b""
                out.append(b",".join(cells))
            new = b"\n".join([lines[0]] + out) + b"\n"
        else:
            raise core.HarnessError("unknown garbage mode %r" % mode)
        self.write(rel, new)


# --------------------------------------------------------------------------- shipped reference
def shipped_tables(repo=None):
    """{rel: bytes | None} of the 21 shipped artefacts in $VERIF_REPO, as on disk now."""
    repo = repo or core.REPO_DIR
    out = {}
    for rel in ALL_OUTPUTS:
        try:
            with open(os.path.join(repo, rel), "rb") as f:
                out[rel] = f.read()
        except FileNotFoundError:
            out[rel] = None
    return out


def first_difference(a, b):
    """Witness of a byte difference between produced `a` and shipped `b`."""
    if a is None or b is None:
        return {"produced_exists": a is not None, "shipped_exists": b is not None}
    n = min(len(a), len(b))
    i = next((k for k in range(n) if a[k] != b[k]), n)
    line = a[:i].count(b"\n") + 1
    ls = a.rfind(b"\n", 0, i) + 1

    def _line(x):
        e = x.find(b"\n", ls)
        seg = x[ls:(e if e >= 0 else len(x))].decode(errors="replace")
        col = i - ls
        return seg[max(0, col - 60):col + 60]

    return {"produced_bytes": len(a), "shipped_bytes": len(b), "first_diff_offset": i, "line": line,
            "produced_around": _line(a), "shipped_around": _line(b), "produced_sha256": sha(a), "shipped_sha256": sha(b)}


# --------------------------------------------------------------------------- table audit
def _rows(data):
    text = data.decode("utf-8", errors="replace")
    return list(csv.reader(io.StringIO(text, newline="")))


def audit_table(data, population_csv=None):
    """Audit of a combined table (bytes). Written from the property statement; does not use
    pandas nor any repo code. -> (checks, stats) where checks = [(sub_check, identity,
    ok, witness)] - one entry per evaluated sub-check."""
    checks = []
    stats = {"rows": 0, "columns": 0, "cells": 0}

    def add(name, ident, bad):
        checks.append((name, ident, not bad, bad[:6] if bad else None))

    if data is None:
        checks.append(("table_exists", {"audit": "table_exists"}, False, "combined table missing"))
        return checks, stats
    rows = _rows(data)
    if not rows:
        checks.append(("table_exists", {"audit": "table_exists"}, False, "combined table empty"))
        return checks, stats
    header, body = rows[0], [r for r in rows[1:] if r != []]
    stats.update(rows=len(body), columns=len(header), cells=len(body) * len(header))
    col = {c: i for i, c in enumerate(header)}

    # shape: 211 uniquely named columns, every row complete
    bad = []
    if len(header) != N_COLUMNS:
        bad.append({"columns": len(header), "expected": N_COLUMNS})
    if len(set(header)) != len(header):
        bad.append({"duplicate_columns": sorted(c for c in set(header) if header.count(c) > 1)[:5]})
    bad += [{"row": i + 2, "cells": len(r), "expected": len(header)} for i, r in enumerate(body) if len(r) != len(header)]
    add("shape", {"audit": "shape"}, bad)
    needed = ID_COLS + SHARE_COLS + FRACTION_COLS + REDUCTION_COLS + QUANTITY_COLS
    miss = [c for c in needed if c not in col]
    add("columns_present", {"audit": "columns_present"}, [{"missing_column": c} for c in miss])
    if "iso3" not in col:
        return checks, stats
    body = [r for r in body if len(r) == len(header)]

    # the 164 expected codes, each exactly once
    codes = [r[col["iso3"]] for r in body]
    bad = []
    for c in sorted(set(EXPECTED_CODES) - set(codes)):
        bad.append({"missing_country": c})
    for c in sorted(set(codes) - set(EXPECTED_CODES)):
        bad.append({"unexpected_country": c})
    for c in sorted(set(c for c in codes if codes.count(c) > 1)):
        bad.append({"repeated_country": c, "times": codes.count(c)})
    if len(codes) != 164 and not bad:
        bad.append({"rows": len(codes)})
    add("codes", {"audit": "codes"}, bad)

    # cross-check of the expected set against the pipeline's own population table
    if population_csv is not None:
        pr = _rows(population_csv)
        bad = []
        if pr and "iso3" in pr[0] and "population" in pr[0]:
            ci, cp = pr[0].index("iso3"), pr[0].index("population")
            pop = [r[ci] for r in pr[1:] if len(r) == len(pr[0]) and r[ci] not in NA_STRINGS and r[cp] not in NA_STRINGS]
            # KOR/PRK are swapped in some tabs and SWZ is renamed SWT by the join: compare as sets
            pop = ["SWT" if c == "SWZ" else c for c in pop]
            for c in sorted(set(pop) - set(codes)):
                bad.append({"in_population_table_not_in_combined": c})
            for c in sorted(set(codes) - set(pop)):
                bad.append({"in_combined_not_in_population_table": c})
        else:
            bad.append({"population_table_unreadable": True})
        add("codes_vs_population", {"audit": "codes_vs_population"}, bad)

    # no missing value anywhere; every non-id cell a finite number
    bad = []
    num = {}
    for r in body:
        code = r[col["iso3"]]
        for c, i in col.items():
            v = r[i]
            if v.strip() in NA_STRINGS:
                bad.append({"iso3": code, "column": c, "cell": v})
                continue
            if c in ID_COLS:
                continue
            try:
                x = float(v)
            except ValueError:
                bad.append({"iso3": code, "column": c, "cell": v, "why": "not a number"})
                continue
            if math.isnan(x) or math.isinf(x):
                bad.append({"iso3": code, "column": c, "cell": v, "why": "not finite"})
                continue
            num[(code, c)] = x
    add("no_missing_values", {"audit": "no_missing_values"}, bad)

    def colvals(c):
        return [(r[col["iso3"]], num[(r[col["iso3"]], c)]) for r in body if (r[col["iso3"]], c) in num]

    # seasonality: 12 shares summing to one
    if all(c in col for c in SHARE_COLS):
        bad = []
        for r in body:
            code = r[col["iso3"]]
            vals = [num.get((code, c)) for c in SHARE_COLS]
            if None in vals:
                continue
            s = math.fsum(vals)
            if abs(s - 1.0) > SEASONALITY_TOL:
                bad.append({"iso3": code, "sum": s})
        add("seasonality_sum", {"audit": "seasonality_sum"}, bad)

    # ranges per class
    for c in header:
        k = column_class(c)
        if k in ("share", "fraction"):
            bad = [{"iso3": code, "column": c, "value": x} for code, x in colvals(c) if not (0.0 <= x <= 1.0)]
            add("fraction_range", {"audit": "fraction_range", "column": c}, bad)
        elif k == "reduction":
            bad = [{"iso3": code, "column": c, "value": x} for code, x in colvals(c) if x < -1.0 - REDUCTION_TOL]
            add("reduction_floor", {"audit": "reduction_floor", "column": c}, bad)
        elif k == "quantity":
            tol = STOCK_TOL if c in STOCK_COLS else 0.0
            bad = [{"iso3": code, "column": c, "value": x} for code, x in colvals(c) if x < -tol]
            name = "seaweed_growth_per_day" if SEAWEED_RE.match(c) else c
            add("quantity_nonnegative", {"audit": "quantity_nonnegative", "column": name}, bad)
    stats["unclassified_columns"] = [c for c in header if column_class(c) is None]
    return checks, stats
