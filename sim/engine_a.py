"""Engine A - stateful operation machine over Food / UnitConversions (property C11).

A *sequence* = an explicit, JSON-able list of operations on a pool of <= 6 Food objects,
interleaved with environment operations (the faults of this engine: another job's
Parameters.set_nutrition_per_month -> Food.conversions.set_nutrition_requirements between
two uses of a quantity).  A *history* = a pack of sequences (fork overhead amortised).

Three parts, all driven by the same op dictionaries:

  * reference model  (ref_apply): pure Python, written from the C11 statement, the class
    docstring CONVENTIONS and the method docstrings / shipped tests - it never calls repo
    code.  Per pool object it holds (shape, three numbers or three lists, three labels).
    For an op it answers one of
        ("res", RObj)        a quantity with these numbers / labels must come back
        ("raise", case)      the op combines unlike units: it must not return a result
        ("pred", mode)       a predicate call (mode: "ok" | "raise" | "any")
        ("na", why)          not applicable to the current pool (missing operand, index
                             into a scalar, zero divisor, different month counts, numbers
                             beyond 1e15 ...): skipped, deterministically, on both sides
  * generator (gen_sequence): seeded; runs the reference model to know the pool, so that
    most ops are applicable and a fixed share deliberately mixes unlike units.
  * executor (run_history): interprets the list against real Food objects and the
    reference model in lock step and evaluates the six clauses after every op.

Soundness rules of the oracle
  * an op that *raises* where a result was expected is never a violation (C11 promises
    properties of returned quantities and refusal of unlike units, not success): counted
    as probe `refused:<op>`;
  * numbers are compared one step at a time: after a verified op the reference adopts the
    real numbers, so a few-ulp difference of a conversion factor can not be amplified by a
    later cancellation; within a step both sides do the same IEEE operations in the same
    order (sums are sequential on both sides);
  * rounding is checked as a property (|r-x| <= half a unit of the last kept decimal, r on
    the decimal grid), not against one rounding mode;
  * after a label / number failure the pool object is rebuilt from the reference so that
    one defect does not cascade; an object whose `units` list is stale (labels and numbers
    right) is kept as the repo produced it - what later ops do with it is the repo's
    behaviour.  When an op with such an operand fails a clause, the op is repeated on
    operands rebuilt from the reference (fresh lists): if the failure disappears the
    identity carries `stale_units_operand: true` (a consequence of the earlier
    units_list_consistent failure), otherwise `false` (an independent defect).
"""

import math

import numpy as np

from . import core, world

EACH = " each month"
PER = " per month"
BIG = 1e15
TOL = 1e-12
POOL_MAX = 6

CLAUSES = [
    "labels_correct",
    "units_list_consistent",
    "operands_unchanged",
    "mixed_units_rejected",
    "numbers_correct",
    "predicate_scalar_equals_monthly",
]

# ----------------------------------------------------------------------------- labels
TRIPLES = {
    "bk": ("billion kcals", "thousand tons", "thousand tons"),
    "bpf": ("billion people fed", "billion people fed", "billion people fed"),
    "ppf": ("percent people fed", "percent people fed", "percent people fed"),
    "kgg": ("kcals per person per day", "grams per person per day", "grams per person per day"),
    "keq": ("kcals per person per day", "effective kcals per person per day", "effective kcals per person per day"),
    "mdt": ("million dry caloric tons", "million tons", "million tons"),
    "ratio": ("ratio", "ratio", "ratio"),
    "kcals": ("kcals", "kcals", "kcals"),
    "g": ("g", "g", "g"),
}
CONVERTIBLE = ["bk", "bpf", "ppf", "kgg", "keq", "mdt"]
NON_RATIO = ["bk", "bk", "bpf", "ppf", "kgg", "keq", "mdt", "kcals", "g"]
DEFAULT_LABELS = list(TRIPLES["bk"])

IN_UNITS_METHODS = {
    "billions_fed": TRIPLES["bpf"],
    "percent_fed": TRIPLES["ppf"],
    "kcals_equivalent": TRIPLES["keq"],
    "kcals_grams_grams_per_person": TRIPLES["kgg"],
    "bil_kcals_thou_tons_thou_tons_per_month": TRIPLES["bk"],
}

PRED_BIN = [
    "all_greater_than", "all_less_than", "any_greater_than", "any_less_than",
    "all_greater_than_or_equal_to", "all_less_than_or_equal_to",
    "any_greater_than_or_equal_to", "any_less_than_or_equal_to",
]
PRED_UN = [
    "all_equals_zero", "any_equals_zero", "all_greater_than_zero", "any_greater_than_zero",
    "all_greater_than_or_equal_to_zero", "is_never_negative",
]
PRED_EQ = ["eq", "ne"]

BINARY_OPS = ("add", "sub", "mul", "div", "min_elementwise")
CONVERSION_OPS = ("in_units", "in_units_from_ratio")
ENV_KINDS = ("flip_include_fat", "flip_include_protein", "set_population", "set_daily_needs")


def split_label(l):
    if l.endswith(EACH):
        return l[: -len(EACH)], EACH
    if l.endswith(PER):
        return l[: -len(PER)], PER
    return l, ""


def is_ratio_labels(labels):
    """Dimensionless ratio: base label 'ratio' for all three nutrients."""
    return all(split_label(l)[0] == "ratio" for l in labels)


# ----------------------------------------------------------------------------- reference objects
class RObj:
    __slots__ = ("shape", "vals", "labels", "nums", "alt_labels")

    def __init__(self, shape, vals, labels, nums="exact", alt_labels=None):
        self.shape = shape  # "s" scalar | "m" monthly
        self.vals = vals  # [k, f, p] numbers, or three equally long lists
        self.labels = list(labels)
        self.nums = nums  # "exact" | "round:<d>" | "adopt"
        self.alt_labels = alt_labels  # other acceptable label triples

    @property
    def n(self):
        return len(self.vals[0]) if self.shape == "m" else None

    def shape_name(self):
        return "monthly" if self.shape == "m" else "scalar"

    def flat(self):
        if self.shape == "m":
            return [x for v in self.vals for x in v]
        return list(self.vals)


def _isnum(x):
    return isinstance(x, (int, float)) and not isinstance(x, bool)


def _finite(vals):
    for x in vals:
        if not _isnum(x) or x != x or abs(x) > BIG:
            return False
    return True


def _ok(r):
    return _finite(r.flat())


def _map1(fn, a):
    if a.shape == "m":
        return [[fn(x) for x in v] for v in a.vals]
    return [fn(x) for x in a.vals]


def _map2(fn, a, b):
    """Elementwise on two reference objects; a scalar operand is broadcast over months."""
    out = []
    for i in range(3):
        x, y = a.vals[i], b.vals[i]
        if a.shape == "m" and b.shape == "m":
            out.append([fn(p, q) for p, q in zip(x, y)])
        elif a.shape == "m":
            out.append([fn(p, y) for p in x])
        elif b.shape == "m":
            out.append([fn(x, q) for q in y])
        else:
            out.append(fn(x, y))
    return out


def to_base_factors(env, labels):
    """Factor turning a value in `labels` (bases, no suffix) into the base system
    (billion kcals, thousand tons fat, thousand tons protein) for a month of 30 days -
    from the documented meaning of each unit. None if a base is not a known unit."""
    days = 30
    kd, pop = env["kcals_daily"], env["population"]
    out = []
    for i, base in enumerate(labels):
        if i == 0:
            per_person_month = kd * days  # kcals per person per month
            table = {
                "billion kcals": 1.0,
                "billion people fed": per_person_month,  # 1e9 people * kcals / 1e9
                "percent people fed": per_person_month * pop / 1e9 / 100,
                "million dry caloric tons": 4000.0,  # 4000 kcals per dry kg
                "kcals per person per day": days * pop / 1e9,
            }
        else:
            daily = env["fat_daily"] if i == 1 else env["protein_daily"]
            per_person_month = daily * days / 1e9  # thousand tons per person per month
            table = {
                "thousand tons": 1.0,
                "million tons": 1000.0,
                "billion people fed": per_person_month * 1e9,
                "percent people fed": per_person_month * pop / 100,
                "grams per person per day": days * pop / 1e9,
                # share of the monthly need, expressed in kcals of the daily kcal need
                "effective kcals per person per day": per_person_month * pop / kd,
            }
        if base not in table:
            return None
        out.append(table[base])
    return out


def _get(pool, op, key):
    i = op.get(key)
    if isinstance(i, int) and not isinstance(i, bool) and 0 <= i < len(pool):
        return pool[i]
    return None


def ref_apply(pool, env, op):
    """Reference outcome of `op` on the reference pool (see module docstring)."""
    name = op["op"]
    NA = ("na", "unsuitable")

    if name == "construct":
        var = op["variant"]
        if var in ("ratio_one", "ratio_zero"):
            v = 1 if var == "ratio_one" else 0
            return ("res", RObj("s", [v, v, v], TRIPLES["ratio"]))
        labels = DEFAULT_LABELS if var == "scalar_defaults" else op.get("labels")
        if not labels or len(labels) != 3:
            return NA
        vals = op.get("vals")
        if var in ("scalar", "scalar_defaults"):
            if not (isinstance(vals, list) and len(vals) == 3 and _finite(vals)):
                return NA
            if any(EACH in l for l in labels):
                return NA  # a single value must not be labelled "each month": garbage in
            return ("res", RObj("s", list(vals), labels))
        if var in ("monthly_list", "monthly_ndarray", "monthly_shared_ndarray"):
            if not (isinstance(vals, list) and len(vals) == 3 and all(isinstance(v, list) and v for v in vals)):
                return NA
            if len({len(v) for v in vals}) != 1 or not all(_finite(v) for v in vals):
                return NA
            if any(split_label(l)[1] == PER for l in labels):
                return NA
            # documented default: " each month" is appended when missing
            lab = [l if l.endswith(EACH) else l + EACH for l in labels]
            return ("res", RObj("m", [list(v) for v in vals], lab))
        if var == "monthly_kcals_only":
            if not (isinstance(vals, list) and vals and _finite(vals)):
                return NA
            if any(split_label(l)[1] == PER for l in labels):
                return NA
            lab = [l if l.endswith(EACH) else l + EACH for l in labels]
            z = [0.0] * len(vals)
            case = "labels_given_with_each_month" if labels[1].endswith(EACH) else "labels_given_without_suffix"
            return ("res", RObj("m", [list(vals), list(z), list(z)], lab), case)
        return NA

    if name in ("setitem", "zero_after"):
        # in-place operations: ("inplace", new [k, f, p] lists of the target) - labels stay, nothing else changes
        a = _get(pool, op, "a")
        if a is None or a.shape != "m" or not _ok(a):
            return NA
        if name == "zero_after":
            m = op.get("month")
            if not isinstance(m, int) or m < 0 or m > a.n:
                return NA
            return ("inplace", [list(v[:m]) + [0] * (a.n - m) for v in a.vals])
        b = _get(pool, op, "b")
        k = op.get("key")
        if b is None or b.shape != "s" or not _ok(b) or not isinstance(k, int) or not (0 <= k < a.n):
            return NA
        if [l + EACH for l in b.labels] != list(a.labels):
            return NA  # index assignment of a value with other units: the statement says nothing, not generated
        new = [list(v) for v in a.vals]
        for q in range(3):
            new[q][k] = b.vals[q]
        return ("inplace", new)

    a = _get(pool, op, "a")
    if a is None:
        return NA

    # ---------------------------------------------------------------- Food o Food
    if name in ("add", "sub", "div", "min_elementwise", "mul"):
        b = _get(pool, op, "b")
        if b is None:
            return NA
        if a.shape == "m" and b.shape == "m" and a.n != b.n:
            return ("na", "month counts differ")
        if name == "mul":
            ra, rb = is_ratio_labels(a.labels), is_ratio_labels(b.labels)
            if not ra and not rb:
                return ("raise", "nonratio_times_nonratio" if a.labels == b.labels else "labels_differ")
            x = b if ra else a  # the operand whose units the product keeps
            r = a if ra else b
            mon = a.shape == "m" or b.shape == "m"
            alt = None
            if x.shape == "m" or not mon:
                lab = list(x.labels)
                if ra and rb and a.labels != b.labels:
                    alt = [list(a.labels), list(b.labels)]
            else:  # x is a single value, the ratio a monthly series
                if any(split_label(l)[1] != "" for l in x.labels):
                    return ("na", "per-month value times monthly ratio: no documented label")
                lab = [l + EACH for l in x.labels]
            case = "ratio_both" if (ra and rb) else ("ratio_left" if ra else "ratio_right")
            res = RObj("m" if mon else "s", _map2(lambda p, q: p * q, a, b), lab, alt_labels=alt)
            return ("res", res, case) if _ok(res) else ("na", "magnitude")
        if a.labels != b.labels:
            return ("raise", "labels_differ")
        if a.shape != b.shape:
            return NA
        if name == "add":
            res = RObj(a.shape, _map2(lambda p, q: p + q, a, b), a.labels)
        elif name == "sub":
            res = RObj(a.shape, _map2(lambda p, q: p - q, a, b), a.labels)
        elif name == "min_elementwise":
            res = RObj(a.shape, _map2(lambda p, q: min(p, q), a, b), a.labels)
        else:
            if any(x == 0 for x in b.flat()):
                return ("na", "zero divisor")
            lab = ["ratio" + (EACH if a.shape == "m" else "")] * 3
            res = RObj(a.shape, _map2(lambda p, q: p / q, a, b), lab)
        return ("res", res) if _ok(res) else ("na", "magnitude")

    # ---------------------------------------------------------------- Food o number / ndarray
    if name in ("mul_num", "div_num"):
        x = op.get("x")
        if not _isnum(x) or x != x or abs(x) > BIG:
            return NA
        if name == "div_num":
            if x == 0:
                return ("na", "zero divisor")
            res = RObj(a.shape, _map1(lambda p: p / x, a), a.labels)
        else:
            res = RObj(a.shape, _map1(lambda p: p * x, a), a.labels)
        return ("res", res) if _ok(res) else ("na", "magnitude")
    if name in ("mul_arr", "div_arr"):
        arr = op.get("arr")
        if not (isinstance(arr, list) and arr and _finite(arr)):
            return NA
        if name == "div_arr" and any(x == 0 for x in arr):
            return ("na", "zero divisor")
        fn = (lambda p, q: p * q) if name == "mul_arr" else (lambda p, q: p / q)
        if a.shape == "m":
            if len(arr) != a.n:
                return ("na", "month counts differ")
            res = RObj("m", [[fn(p, q) for p, q in zip(v, arr)] for v in a.vals], a.labels)
        else:
            if any(split_label(l)[1] != "" for l in a.labels):
                return ("na", "per-month value times array: no documented label")
            res = RObj("m", [[fn(v, q) for q in arr] for v in a.vals], [l + EACH for l in a.labels])
        return ("res", res) if _ok(res) else ("na", "magnitude")

    if name == "neg":
        return ("res", RObj(a.shape, _map1(lambda p: -p, a), a.labels))
    if name == "clip":
        return ("res", RObj(a.shape, _map1(lambda p: 0 if p < 0 else p, a), a.labels))

    # ---------------------------------------------------------------- conversions
    if name == "in_units":
        meth = op.get("method")
        to = IN_UNITS_METHODS.get(meth) if meth != "generic" else op.get("to")
        if not to or len(to) != 3:
            return NA
        parts = [split_label(l) for l in a.labels]
        sufs = {s for _, s in parts}
        if len(sufs) != 1:
            return NA
        suf = parts[0][1]
        if (a.shape == "m") != (suf == EACH):
            return NA
        f_from = to_base_factors(env, [b for b, _ in parts])
        f_to = to_base_factors(env, list(to))
        if f_to is None:
            return NA
        if f_from is None:
            return ("raise", "unknown_units")
        fac = [f_from[i] / f_to[i] for i in range(3)]
        if a.shape == "m":
            vals = [[x * fac[i] for x in a.vals[i]] for i in range(3)]
        else:
            vals = [a.vals[i] * fac[i] for i in range(3)]
        res = RObj(a.shape, vals, [t + suf for t in to])
        return ("res", res) if _ok(res) else ("na", "magnitude")
    if name == "in_units_from_ratio":
        ratios = op.get("ratios")
        if not (isinstance(ratios, list) and len(ratios) == 3 and _finite(ratios) and all(x > 0 for x in ratios)):
            return NA
        parts = [split_label(l) for l in a.labels]
        if [b for b, _ in parts] != list(TRIPLES["bk"]):
            return ("raise", "unknown_units")
        sufs = {s for _, s in parts}
        if sufs == {EACH} and a.shape == "m":
            lab = [t + EACH for t in TRIPLES["kgg"]]
        elif sufs == {PER} and a.shape == "s":
            lab = list(TRIPLES["kgg"])  # documented: per-month value -> plain per-person-per-day labels
        else:
            return ("raise", "unknown_units")
        # the docstring does not define the arithmetic unambiguously: numbers are not judged
        c = 1e9 / 30 / env["population"] * ratios[0]
        fac = [c, c * ratios[1], c * ratios[2]]
        if a.shape == "m":
            vals = [[x * fac[i] for x in a.vals[i]] for i in range(3)]
        else:
            vals = [a.vals[i] * fac[i] for i in range(3)]
        res = RObj(a.shape, vals, lab, nums="adopt")
        return ("res", res) if _ok(res) else ("na", "magnitude")

    # ---------------------------------------------------------------- predicates
    if name == "pred":
        p = op.get("name")
        if p in PRED_UN:
            return ("pred", "ok")
        if p not in PRED_BIN and p not in PRED_EQ:
            return NA
        b = _get(pool, op, "b")
        if b is None:
            return NA
        if a.shape == "m" and b.shape == "m" and a.n != b.n:
            return ("na", "month counts differ")
        if a.labels == b.labels:
            return ("pred", "ok")
        if p == "all_less_than_or_equal_to" and a.shape != b.shape:
            return ("pred", "any")  # documented cases 2 and 3: value against series
        return ("pred", "raise")

    # ---------------------------------------------------------------- monthly-only ops
    if a.shape != "m":
        return ("na", "needs a monthly quantity")
    n = a.n
    if name in ("get_month", "get_first_month", "getitem"):
        key = 0 if name == "get_first_month" else op.get("key")
        if isinstance(key, int) and not isinstance(key, bool):
            if not (-n <= key < n):
                return ("na", "index out of range")
            # one month of a series is the per-month form (documented for get_month and,
            # as the intended behaviour, in the NOTE of __getitem__)
            lab = [l[: -len(EACH)] + PER for l in a.labels]
            r = RObj("s", [v[key] for v in a.vals], lab)
            return ("res", r, "int" if op.get("key_type", "int") == "int" else "numpy_int") if name == "getitem" else ("res", r)
        if name == "getitem" and isinstance(key, list) and len(key) == 2:
            sl = slice(key[0], key[1])
            vals = [v[sl] for v in a.vals]
            if not vals[0]:
                return ("na", "empty slice")
            return ("res", RObj("m", vals, a.labels), "slice")
        return NA
    if name == "sum":
        vals = []
        for v in a.vals:
            t = 0
            for x in v:
                t = t + x
            vals.append(t)
        res = RObj("s", vals, [l[: -len(EACH)] for l in a.labels])
        return ("res", res) if _ok(res) else ("na", "magnitude")
    if name == "running_sum":
        vals = []
        for v in a.vals:
            t, o = 0, []
            for x in v:
                t = t + x
                o.append(t)
            vals.append(o)
        res = RObj("m", vals, a.labels)
        return ("res", res) if _ok(res) else ("na", "magnitude")
    if name in ("min_all", "max_all"):
        fn = min if name == "min_all" else max
        return ("res", RObj("s", [fn(v) for v in a.vals], [l[: -len(EACH)] for l in a.labels]))
    if name == "round":
        d = op.get("decimals")
        if not (isinstance(d, int) and 0 <= d <= 8):
            return NA
        return ("res", RObj("m", [[float(round(x, d)) for x in v] for v in a.vals], a.labels, nums="round:%d" % d))
    if name == "shift":
        k = op.get("months")
        if not (isinstance(k, int) and k >= 0):
            return NA  # only forward shifts are documented ("newly introduced values ... set to 0")
        return ("res", RObj("m", [[0 if i < k else v[i - k] for i in range(n)] for v in a.vals], a.labels))
    return NA


def ref_store(pool, op, robj):
    out = op.get("out")
    if not isinstance(out, int) or out < 0 or out >= len(pool):
        if len(pool) < POOL_MAX:
            pool.append(robj)
            return len(pool) - 1
        out = (out if isinstance(out, int) and out >= 0 else 0) % POOL_MAX
    pool[out] = robj
    return out


def env_apply(env, op):
    k = op["kind"]
    if k == "flip_include_fat":
        env["include_fat"] = not env["include_fat"]
    elif k == "flip_include_protein":
        env["include_protein"] = not env["include_protein"]
    elif k == "set_population":
        env["population"] = op["value"]
    elif k == "set_daily_needs":
        env["kcals_daily"], env["fat_daily"], env["protein_daily"] = op["value"]


# ----------------------------------------------------------------------------- generator
def gen_num(rng, ratio=False):
    r = rng.random()
    if ratio:
        if r < 0.15:
            return 0
        if r < 0.3:
            return 1
        if r < 0.8:
            return round(rng.uniform(0, 1.5), 3)
        return round(rng.uniform(-1, 2), 6)
    if r < 0.14:
        return 0
    if r < 0.22:
        return 1
    if r < 0.42:
        return rng.randrange(-9, 21)
    if r < 0.68:
        return round(rng.uniform(-50, 200), 2)
    if r < 0.9:
        return rng.uniform(-1000, 1000)
    if r < 0.95:
        return rng.uniform(-1, 1) * 1e-6
    return rng.uniform(-1, 1) * 1e6


def gen_vals(rng, shape, n, ratio=False):
    style = rng.random()
    if shape == "s":
        if style < 0.12:
            v = gen_num(rng, ratio)
            return [v, v, v]
        return [gen_num(rng, ratio) for _ in range(3)]
    if style < 0.1:  # same series for the three nutrients
        v = [gen_num(rng, ratio) for _ in range(n)]
        return [list(v), list(v), list(v)]
    if style < 0.2:  # integer series (integer dtype in the real object)
        return [[rng.randrange(-5, 12) for _ in range(n)] for _ in range(3)]
    if style < 0.28:  # constant in time
        return [[gen_num(rng, ratio)] * n for _ in range(3)]
    return [[gen_num(rng, ratio) for _ in range(n)] for _ in range(3)]


def gen_env(rng):
    return {
        "kcals_daily": rng.pick([2100, 2100, 100, 1, 2500.5, rng.randrange(1500, 3200)]),
        "fat_daily": rng.pick([47, 10, 1, 61.7, rng.randrange(20, 90)]),
        "protein_daily": rng.pick([51, 10, 1, 58.4, rng.randrange(30, 110)]),
        "include_fat": rng.chance(0.5),
        "include_protein": rng.chance(0.5),
        "population": rng.pick([7.8e9, 1000, 1, 331002651, 5.5e6, rng.randrange(10**4, 10**9)]),
    }


def _gen_env_op(rng):
    k = rng.pick(["flip_include_fat", "flip_include_protein", "flip_include_fat", "flip_include_protein",
                  "set_population", "set_daily_needs"])
    if k == "set_population":
        return {"op": "env", "kind": k, "value": rng.pick([7.8e9, 1000, 1, 1.4e9, rng.randrange(10**4, 10**9)])}
    if k == "set_daily_needs":
        return {"op": "env", "kind": k, "value": [rng.pick([2100, 100, 1800.5, rng.randrange(1500, 3200)]),
                                                  rng.pick([47, 10, 35.5, rng.randrange(20, 90)]),
                                                  rng.pick([51, 10, 62.5, rng.randrange(30, 110)])]}
    return {"op": "env", "kind": k}


def _gen_construct(rng, pool, n, palette, want=None):
    """want: None | "ratio" | "monthly" | "scalar" | "convertible"."""
    r = rng.random()
    shape = "m" if rng.chance(0.55) else "s"
    if want == "monthly":
        shape = "m"
    if want == "scalar":
        shape = "s"
    key = rng.pick(palette) if rng.chance(0.85) else rng.pick(NON_RATIO)
    if want == "ratio" or (want is None and r < 0.18):
        key = "ratio"
    if want == "convertible" and key not in CONVERTIBLE:
        key = rng.pick(CONVERTIBLE)
    if want is None and key == "ratio" and shape == "s" and rng.chance(0.15):
        return {"op": "construct", "variant": rng.pick(["ratio_one", "ratio_zero"])}
    base = list(TRIPLES[key])
    ratio = key == "ratio"
    if shape == "s":
        if key == "bk" and want is None and rng.chance(0.15):
            return {"op": "construct", "variant": "scalar_defaults", "vals": gen_vals(rng, "s", n, ratio)}
        suf = PER if (not ratio and rng.chance(0.35)) else ""
        return {"op": "construct", "variant": "scalar", "vals": gen_vals(rng, "s", n, ratio),
                "labels": [b + suf for b in base]}
    nn = n if rng.chance(0.9) else rng.pick([1, 2, 3])
    suf = EACH if rng.chance(0.6) else ""
    if rng.chance(0.08):
        return {"op": "construct", "variant": "monthly_kcals_only", "vals": gen_vals(rng, "m", nn, ratio)[0],
                "labels": [b + suf for b in base]}
    var = rng.pick(["monthly_list", "monthly_ndarray", "monthly_ndarray", "monthly_shared_ndarray"])
    vals = gen_vals(rng, "m", nn, ratio)
    if var == "monthly_shared_ndarray":
        vals[2] = list(vals[1])  # fat and protein are handed over as ONE array object
    return {"op": "construct", "variant": var, "vals": vals, "labels": [b + suf for b in base]}


_OP_WEIGHTS = [
    ("construct", 9), ("binary", 27), ("num", 8), ("arr", 4), ("neg", 3), ("getitem", 5), ("month", 7),
    ("sum", 4), ("running_sum", 3), ("minmax", 4), ("round", 3), ("clip", 3), ("shift", 3),
    ("in_units", 10), ("from_ratio", 2), ("pred", 13), ("env", 8), ("inplace", 5),
]
_OP_TOTAL = sum(w for _, w in _OP_WEIGHTS)


def _pick_kind(rng):
    x = rng.randrange(_OP_TOTAL)
    for k, w in _OP_WEIGHTS:
        if x < w:
            return k
        x -= w
    return "construct"


def _out_slot(rng, pool):
    if len(pool) < POOL_MAX and not (len(pool) >= 3 and rng.chance(0.2)):
        return len(pool)
    return rng.randrange(len(pool))


def _pair_same_units(rng, pool):
    i = rng.randrange(len(pool))
    js = [j for j in range(len(pool)) if pool[j].labels == pool[i].labels and pool[j].n == pool[i].n]
    return i, rng.pick(js)


def _propose(rng, pool, n, palette):
    """One candidate op for the current reference pool (may turn out inapplicable)."""
    if len(pool) < 2:
        return dict(_gen_construct(rng, pool, n, palette), out=len(pool))
    kind = _pick_kind(rng)
    monthly = [i for i in range(len(pool)) if pool[i].shape == "m"]
    if kind == "env":
        return _gen_env_op(rng)
    if kind == "construct":
        return dict(_gen_construct(rng, pool, n, palette), out=_out_slot(rng, pool))
    if kind == "binary":
        name = rng.pick(["add", "sub", "mul", "mul", "div", "min_elementwise"])
        if rng.chance(0.85):
            if name == "mul":
                ratios = [i for i in range(len(pool)) if is_ratio_labels(pool[i].labels)]
                if not ratios:
                    return dict(_gen_construct(rng, pool, n, palette, want="ratio"), out=_out_slot(rng, pool))
                r, x = rng.pick(ratios), rng.randrange(len(pool))
                i, j = (r, x) if rng.chance(0.5) else (x, r)
            else:
                i, j = _pair_same_units(rng, pool)
        else:
            i, j = rng.randrange(len(pool)), rng.randrange(len(pool))
        return {"op": name, "a": i, "b": j, "out": _out_slot(rng, pool)}
    if kind == "num":
        i = rng.randrange(len(pool))
        x = gen_num(rng, ratio=rng.chance(0.4))
        r = rng.random()
        if r < 0.4:
            return {"op": "mul_num", "a": i, "x": x, "side": "right", "out": _out_slot(rng, pool)}
        if r < 0.7:
            return {"op": "mul_num", "a": i, "x": x, "side": "left", "out": _out_slot(rng, pool)}
        return {"op": "div_num", "a": i, "x": x, "out": _out_slot(rng, pool)}
    if kind == "arr":
        i = rng.randrange(len(pool))
        nn = pool[i].n or n
        arr = [gen_num(rng, ratio=True) for _ in range(nn)] if rng.chance(0.7) else [rng.randrange(1, 5) for _ in range(nn)]
        return {"op": rng.pick(["mul_arr", "mul_arr", "div_arr"]), "a": i, "arr": arr, "out": _out_slot(rng, pool)}
    if kind == "neg":
        return {"op": "neg", "a": rng.randrange(len(pool)), "out": _out_slot(rng, pool)}
    if kind == "clip":
        return {"op": "clip", "a": rng.randrange(len(pool)), "out": _out_slot(rng, pool)}
    if kind == "in_units":
        conv = [i for i in range(len(pool)) if to_base_factors(gen_env_default(), [split_label(l)[0] for l in pool[i].labels])]
        if conv and rng.chance(0.92):
            i = rng.pick(conv)
        elif not conv:
            return dict(_gen_construct(rng, pool, n, palette, want="convertible"), out=_out_slot(rng, pool))
        else:
            i = rng.randrange(len(pool))
        if rng.chance(0.8):
            return {"op": "in_units", "a": i, "method": rng.pick(sorted(IN_UNITS_METHODS)), "out": _out_slot(rng, pool)}
        return {"op": "in_units", "a": i, "method": "generic", "to": list(TRIPLES[rng.pick(CONVERTIBLE)]),
                "out": _out_slot(rng, pool)}
    if kind == "from_ratio":
        bk = [i for i in range(len(pool)) if [split_label(l)[0] for l in pool[i].labels] == list(TRIPLES["bk"])]
        i = rng.pick(bk) if bk and rng.chance(0.9) else rng.randrange(len(pool))
        return {"op": "in_units_from_ratio", "a": i,
                "ratios": [rng.pick([1, 0.5, 4000, 2.5]), rng.pick([1, 0.03, 0.1]), rng.pick([1, 0.08, 0.2])],
                "out": _out_slot(rng, pool)}
    if kind == "pred":
        r = rng.random()
        if r < 0.3:
            return {"op": "pred", "name": rng.pick(PRED_UN), "a": rng.randrange(len(pool)), "month": rng.randrange(12)}
        name = rng.pick(PRED_BIN) if r < 0.9 else rng.pick(PRED_EQ)
        if rng.chance(0.85):
            i, j = _pair_same_units(rng, pool)
        else:
            i, j = rng.randrange(len(pool)), rng.randrange(len(pool))
        return {"op": "pred", "name": name, "a": i, "b": j, "month": rng.randrange(12)}
    # the remaining kinds need a monthly operand
    if not monthly:
        return dict(_gen_construct(rng, pool, n, palette, want="monthly"), out=_out_slot(rng, pool))
    i = rng.pick(monthly)
    nn = pool[i].n
    out = _out_slot(rng, pool)
    if kind == "getitem":
        if rng.chance(0.5):
            # the index may be a Python int or a numpy integer scalar (np.argmax, np.where(...)[0][k] ...)
            return {"op": "getitem", "a": i, "key": rng.randrange(-nn, nn), "out": out,
                    "key_type": rng.pick(["int", "int", "np.int64", "np.int32", "np.intp"])}
        s = rng.randrange(nn)
        return {"op": "getitem", "a": i, "key": [s, rng.pick([None, s + 1, nn, s + 1 + rng.randrange(nn)])], "out": out}
    if kind == "month":
        if rng.chance(0.35):
            return {"op": "get_first_month", "a": i, "out": out}
        return {"op": "get_month", "a": i, "key": rng.randrange(nn), "out": out}
    if kind == "sum":
        return {"op": "sum", "a": i, "out": out}
    if kind == "running_sum":
        return {"op": "running_sum", "a": i, "out": out}
    if kind == "minmax":
        return {"op": rng.pick(["min_all", "max_all"]), "a": i, "out": out}
    if kind == "round":
        return {"op": "round", "a": i, "decimals": rng.pick([0, 1, 2, 3, 5]), "out": out}
    if kind == "shift":
        return {"op": "shift", "a": i, "months": rng.pick([0, 1, 1, 2, nn - 1, nn, nn + 2]), "out": out}
    if kind == "inplace":
        # index assignment and set_to_zero_after_month change their target in place - and nothing else
        if rng.chance(0.5):
            return {"op": "zero_after", "a": i, "month": rng.randrange(nn + 1)}
        base = [l[:-len(EACH)] if l.endswith(EACH) else l for l in pool[i].labels]
        js = [j for j in range(len(pool)) if pool[j].shape == "s" and list(pool[j].labels) == base]
        if not js:
            return {"op": "construct", "variant": "scalar", "vals": gen_vals(rng, "s", n, is_ratio_labels(base)),
                    "labels": base, "out": _out_slot(rng, pool)}
        return {"op": "setitem", "a": i, "key": rng.randrange(nn), "b": rng.pick(js)}
    return None


_ENV_DEFAULT = {"kcals_daily": 2100, "fat_daily": 47, "protein_daily": 51, "include_fat": True,
                "include_protein": True, "population": 7.8e9}


def gen_env_default():
    return _ENV_DEFAULT


def gen_sequence(rng, lo, hi):
    env = gen_env(rng)
    n = rng.pick([1, 2, 3, 3, 4, 6])
    palette = [rng.pick(NON_RATIO) for _ in range(rng.pick([1, 2, 2, 3]))]
    length = lo + rng.randrange(hi - lo + 1)
    ops, pool, envc = [], [], dict(env)
    attempts = 0
    while len(ops) < length and attempts < length * 5:
        attempts += 1
        op = _propose(rng, pool, n, palette)
        if op is None:
            continue
        if op["op"] == "env":
            env_apply(envc, op)
            ops.append(op)
            continue
        out = ref_apply(pool, envc, op)
        if out[0] == "na":
            continue
        ops.append(op)
        if out[0] == "res":
            ref_store(pool, op, out[1])
        elif out[0] == "inplace":
            pool[op["a"]].vals = out[1]
    return {"env": env, "ops": ops}


def generate_history(seed, prop, h, n_seqs, lo, hi):
    seqs = []
    for s in range(n_seqs):
        seqs.append(gen_sequence(core.Rng(seed, prop, h, "seq", s), lo, hi))
    return {"h": h, "seqs": seqs}


# ----------------------------------------------------------------------------- executor helpers
def _py(v):
    if isinstance(v, np.ndarray):
        return v.tolist()
    if isinstance(v, np.generic):
        return v.item()
    return v


def real_view(o):
    """(shape, [k, f, p] as Python numbers / lists, labels, units list) of a real Food."""
    vals = [_py(o.kcals), _py(o.fat), _py(o.protein)]
    kinds = {"m" if isinstance(v, list) else "s" for v in vals}
    shape = kinds.pop() if len(kinds) == 1 else "mixed"
    if shape == "m" and (len({len(v) for v in vals}) != 1 or any(isinstance(x, list) for v in vals for x in v)):
        shape = "mixed"
    return shape, vals, [o.kcals_units, o.fat_units, o.protein_units], list(o.units)


def _snap1(v):
    if isinstance(v, np.ndarray):
        return ("a", v.dtype.str, v.shape, v.tobytes())
    if isinstance(v, (float, np.floating)):
        return (type(v).__name__, float(v).hex())
    return (type(v).__name__, repr(v))


def snapshot(o):
    return ((_snap1(o.kcals), _snap1(o.fat), _snap1(o.protein)),
            (o.kcals_units, o.fat_units, o.protein_units), tuple(o.units))


def close(x, y, tol=TOL):
    if x == y:
        return True
    if not (_isnum(x) and _isnum(y)) or x != x or y != y:
        return False
    return abs(x - y) <= tol * max(abs(x), abs(y))


def _flat(vals, shape):
    return [x for v in vals for x in v] if shape == "m" else list(vals)


def rounding_ok(x, r, d):
    """r is x rounded to d decimals under *some* round-half rule."""
    if not (_isnum(r) and r == r):
        return False
    step = 10.0 ** (-d)
    if abs(r - x) > 0.5 * step * (1 + 1e-9) + abs(x) * 4e-16:
        return False
    q = r / step
    return abs(q - round(q)) <= 1e-9 * max(1.0, abs(q))


def doc_pred(name, av, bv, inc_f, inc_p):
    """Documented meaning of a predicate on single values (ignored nutrients take no part):
    used only to say *which* of the two forms deviates when they disagree."""
    inc = [True, inc_f, inc_p]
    if name in ("eq", "ne"):
        same = all(av[i] == bv[i] for i in range(3))
        return same if name == "eq" else not same
    cmp = {
        "greater_than": lambda x, y: x > y, "less_than": lambda x, y: x < y,
        "greater_than_or_equal_to": lambda x, y: x >= y, "less_than_or_equal_to": lambda x, y: x <= y,
    }
    if name in PRED_BIN:
        q, rel = name.split("_", 1)
        c = [cmp[rel](av[i], bv[i]) for i in range(3)]
    else:
        q = "all" if name == "is_never_negative" else name.split("_", 1)[0]
        if name == "all_equals_zero":
            c = [round(av[i], 9) == 0 for i in range(3)]
        elif name == "any_equals_zero":
            c = [av[i] == 0 for i in range(3)]
        elif name in ("all_greater_than_zero", "any_greater_than_zero"):
            c = [av[i] > 0 for i in range(3)]
        else:
            c = [av[i] >= 0 for i in range(3)]
    if q == "all":
        return all(c[i] or not inc[i] for i in range(3))
    return any(c[i] and inc[i] for i in range(3))


class Verdicts:
    def __init__(self, prop):
        self.prop = prop
        self.violations = []
        self.clauses = {c: 0 for c in CLAUSES}
        self._seen = set()

    def ev(self, clause, n=1):
        self.clauses[clause] += n

    def fail(self, clause, identity, witness, detail):
        key = (clause, core.digest(identity))
        if key in self._seen:
            return
        self._seen.add(key)
        self.violations.append(core.Violation(self.prop, clause, identity, witness, detail))


# ----------------------------------------------------------------------------- executor
class SeqRunner:
    """Runs one sequence against real Food objects and the reference model."""

    def __init__(self, F, si, seq, V, log, counters):
        self.F = F
        self.si = si
        self.seq = seq
        self.V = V
        self.log = log
        self.c = counters
        self.env = dict(seq["env"])
        self.ref = []  # [RObj]
        self.real = []  # [Food]
        self.stale = []  # [bool] units list of the real object disagrees with its labels
        self.given = []  # [(arrays handed to a constructor, copies taken at that moment)]
        self.executed = 0
        self.has_binary_or_conversion = False

    # -- environment
    def set_env(self, env=None, **over):
        e = dict(env or self.env)
        e.update(over)
        self.F.conversions.set_nutrition_requirements(
            kcals_daily=e["kcals_daily"], fat_daily=e["fat_daily"], protein_daily=e["protein_daily"],
            include_fat=e["include_fat"], include_protein=e["include_protein"], population=e["population"],
        )

    def probe(self, k, n=1):
        p = self.c["probes"]
        p[k] = p.get(k, 0) + n

    # -- building real objects
    def build(self, r):
        """Real object from a reference object through the public constructor."""
        F = self.F
        if r.shape == "m":
            o = F(np.array(r.vals[0]), np.array(r.vals[1]), np.array(r.vals[2]), *r.labels)
        else:
            o = F(r.vals[0], r.vals[1], r.vals[2], *r.labels)
        if [o.kcals_units, o.fat_units, o.protein_units] != list(r.labels):
            o.set_units(*r.labels)
        return o

    def do_real(self, op):
        F, name = self.F, op["op"]
        if name == "construct":
            var = op["variant"]
            if var == "ratio_one":
                return F.ratio_one()
            if var == "ratio_zero":
                return F.ratio_zero()
            v = op["vals"]
            if var == "scalar_defaults":
                return F(v[0], v[1], v[2])
            L = op["labels"]
            if var == "scalar":
                return F(v[0], v[1], v[2], L[0], L[1], L[2])
            if var == "monthly_list":
                return F(list(v[0]), list(v[1]), list(v[2]), L[0], L[1], L[2])
            if var == "monthly_ndarray":
                arrs = [np.array(v[0]), np.array(v[1]), np.array(v[2])]
                self.given.append((arrs, [x.copy() for x in arrs]))
                return F(arrs[0], arrs[1], arrs[2], L[0], L[1], L[2])
            if var == "monthly_shared_ndarray":
                k, x = np.array(v[0]), np.array(v[1])
                self.given.append(([k, x], [k.copy(), x.copy()]))
                return F(k, x, x, L[0], L[1], L[2])
            if var == "monthly_kcals_only":
                return F(kcals=np.array(v), kcals_units=L[0], fat_units=L[1], protein_units=L[2])
        a = self.real[op["a"]]
        b = self.real[op["b"]] if isinstance(op.get("b"), int) else None
        if name == "add":
            return a + b
        if name == "sub":
            return a - b
        if name == "mul":
            return a * b
        if name == "div":
            return a / b
        if name == "min_elementwise":
            return F.min_elementwise(a, b)
        if name == "mul_num":
            return a * op["x"] if op.get("side") != "left" else op["x"] * a
        if name == "div_num":
            return a / op["x"]
        if name == "mul_arr":
            return a * np.array(op["arr"])
        if name == "div_arr":
            return a / np.array(op["arr"])
        if name == "neg":
            return -a
        if name == "clip":
            return a.negative_values_to_zero()
        if name == "getitem":
            k = op["key"]
            if isinstance(k, int) and op.get("key_type", "int") != "int":
                k = getattr(np, op["key_type"].split(".")[1])(k)
            return a[k] if not isinstance(k, list) else a[slice(k[0], k[1])]
        if name == "get_month":
            return a.get_month(op["key"])
        if name == "get_first_month":
            return a.get_first_month()
        if name == "sum":
            return a.get_nutrients_sum()
        if name == "running_sum":
            return a.get_running_total_nutrients_sum()
        if name == "min_all":
            return a.get_min_all_months()
        if name == "max_all":
            return a.get_max_all_months()
        if name == "round":
            return a.get_rounded_to_decimal(op["decimals"])
        if name == "shift":
            return a.shift(op["months"])
        if name == "in_units":
            if op["method"] == "generic":
                return a.in_units(*op["to"])
            return getattr(a, "in_units_" + op["method"])()
        if name == "in_units_from_ratio":
            return a.in_units_kcals_grams_grams_per_person_from_ratio(*op["ratios"])
        if name == "pred":
            return self.call_pred(op["name"], a, b)
        if name == "zero_after":
            return a.set_to_zero_after_month(op["month"])
        if name == "setitem":
            a[op["key"]] = b
            return None
        raise core.HarnessError("unknown op %r" % name)

    @staticmethod
    def call_pred(p, a, b):
        if p == "eq":
            return a == b
        if p == "ne":
            return a != b
        if p in PRED_UN:
            return getattr(a, p)()
        return getattr(a, p)(b)

    # -- per-op identity
    def ident(self, op, **extra):
        idx = [op[k] for k in ("a", "b") if isinstance(op.get(k), int)]
        name = op["op"]
        if name == "pred":
            name = op["name"]
        elif name == "in_units":
            name = "in_units" if op["method"] == "generic" else "in_units_" + op["method"]
        elif name == "construct":
            name = "construct_" + op["variant"]
        elif name == "mul_num":
            name = "mul_num_" + op.get("side", "right")
        d = {"op": name,
             "shapes": ",".join(self.ref[i].shape_name() for i in idx),
             "stale_units_operand": False}
        d.update(extra)
        return d

    def witness(self, oi, op, **extra):
        idx = [op[k] for k in ("a", "b") if isinstance(op.get(k), int)]
        w = {"sequence": self.si, "op_index": oi, "op": op, "env": dict(self.env),
             "operands": [{"labels": self.ref[i].labels, "vals": self.ref[i].vals, "stale_units_list": self.stale[i]}
                          for i in idx]}
        w.update(extra)
        return w

    # -- the machine
    def run(self):
        with np.errstate(all="ignore"):
            self.set_env()
            for oi, op in enumerate(self.seq["ops"]):
                self.step(oi, op)
        nontrivial = self.executed >= 2 and self.has_binary_or_conversion
        return nontrivial

    def check_pool_unchanged(self, oi, op, snaps, operand_idx, skip=()):
        V = self.V
        V.ev("operands_unchanged")
        for gi, (arrs, copies) in enumerate(self.given):
            # arrays the harness handed to the constructor are its own: no operation may ever change them
            if any(x.shape != c.shape or not bool((x == c).all()) for x, c in zip(arrs, copies)):
                V.fail("operands_unchanged", self.ident(op, what="numbers", role="constructor_argument"),
                       self.witness(oi, op, given_index=gi, before=[c.tolist() for c in copies], after=[x.tolist() for x in arrs]),
                       "an operation changed an array that had been handed to the constructor of a quantity")
                self.given[gi] = (arrs, [x.copy() for x in arrs])
        for i, (o, s) in enumerate(zip(self.real, snaps)):
            if i in skip:
                continue
            now = snapshot(o)
            role = "operand" if i in operand_idx else "bystander"
            if now[0] != s[0] or now[1] != s[1]:
                what = "numbers" if now[0] != s[0] else "labels"
                V.fail("operands_unchanged", self.ident(op, what=what, role=role),
                       self.witness(oi, op, pool_index=i, before=[s[1]], after=[now[1]]),
                       "an operation changed the %s of a quantity it was given / that merely existed" % what)
            consistent_before = list(s[2]) == list(s[1])
            consistent_now = list(now[2]) == list(now[1])
            if consistent_before and now[2] != s[2]:
                V.fail("operands_unchanged", self.ident(op, what="units_list", role=role),
                       self.witness(oi, op, pool_index=i, before=list(s[2]), after=list(now[2])),
                       "an operation changed the units list of an existing quantity")
            if consistent_before and not consistent_now:
                V.fail("units_list_consistent", self.ident(op, what="existing_object", role=role),
                       self.witness(oi, op, pool_index=i, units=list(now[2]), labels=list(now[1])),
                       "units list of an existing quantity no longer equals its three labels")
            self.stale[i] = not consistent_now

    def try_real(self, op):
        try:
            return self.do_real(op), None
        except core.HarnessError:
            raise
        except Exception as e:  # noqa: any refusal counts as a refusal
            return None, type(e).__name__

    def redo_on_fresh_operands(self, op):
        """The same op on operands rebuilt from the reference (units lists fresh): tells
        whether a failure needs the stale units list of an operand."""
        idx = [op[k] for k in ("a", "b") if isinstance(op.get(k), int)]
        saved = {i: self.real[i] for i in idx}
        try:
            for i in saved:
                self.real[i] = self.build(self.ref[i])
            return self.try_real(op)
        finally:
            for i, o in saved.items():
                self.real[i] = o

    def assess(self, op, out, got, exc):
        """Failures of one executed op: [(clause, identity extras, witness extras, detail)].
        For a returned result also the real view and what the reference should adopt."""
        fails, info = [], {}
        if out[0] == "raise":
            if exc is None:
                if out[1] == "unknown_units":
                    # a conversion from a label with no known meaning can not carry right labels
                    fails.append(("labels_correct", {"case": "converted_unknown_units"},
                                  {"returned": real_view(got)[2]},
                                  "conversion of a quantity whose units are not known returned a result"))
                else:
                    fails.append(("mixed_units_rejected", {"case": out[1]},
                                  {"returned": list(real_view(got)[1:3])},
                                  "quantities with different unit labels were combined instead of being refused"))
            return fails, info
        if out[0] == "pred":
            if out[1] == "raise" and exc is None:
                fails.append(("mixed_units_rejected", {"case": "predicate_labels_differ"}, {"returned": bool(got)},
                              "a comparison of quantities with different unit labels answered instead of refusing"))
            return fails, info
        res = out[1]
        if exc is not None:
            return fails, info
        extra = {"case": out[2]} if len(out) > 2 else {}
        shape, vals, labels, ulist = real_view(got)
        info.update(shape=shape, vals=vals, labels=labels, stale=ulist != labels, adopt_labels=None, adopt_vals=None)
        # (a) labels
        if labels == res.labels:
            pass
        elif res.alt_labels and labels in res.alt_labels:
            info["adopt_labels"] = labels
        else:
            fails.append(("labels_correct", dict(extra),
                          {"expected_labels": res.labels, "got_labels": labels, "got_shape": shape},
                          "result labels differ from the documented ones"))
        # (b) units list
        if ulist != labels:
            fails.append(("units_list_consistent", dict(extra), {"units": ulist, "labels": labels},
                          "units list of the result differs from [kcals_units, fat_units, protein_units]"))
        # (e) numbers
        if shape != res.shape or (shape == "m" and len(vals[0]) != res.n):
            fails.append(("numbers_correct", dict(extra, kind="shape"),
                          {"expected_shape": res.shape_name(), "got_shape": shape, "got": vals},
                          "result is not the expected scalar / monthly shape"))
        else:
            gf, rf = _flat(vals, shape), res.flat()
            if res.nums == "adopt":
                bad = [i for i, x in enumerate(gf) if not _isnum(x) or x != x]
            elif res.nums.startswith("round:"):
                d = int(res.nums.split(":")[1])
                src = self.ref[op["a"]].flat()
                bad = [i for i, (x, r) in enumerate(zip(src, gf)) if not rounding_ok(x, r, d)]
            else:
                bad = [i for i, (x, r) in enumerate(zip(rf, gf)) if not close(x, r)]
            if bad:
                fails.append(("numbers_correct", dict(extra, kind="value"),
                              {"expected": res.vals, "got": vals, "first_bad": bad[0]},
                              "result numbers differ from the reference model beyond 1e-12 relative"))
            else:
                info["adopt_vals"] = vals
        return fails, info

    def step(self, oi, op):
        V, log = self.V, self.log
        name = op["op"]
        if name == "env":
            snaps = [snapshot(o) for o in self.real]
            env_apply(self.env, op)
            self.set_env()
            log.add("FAULT", kind=op["kind"], at=[self.si, oi])
            self.check_pool_unchanged(oi, op, snaps, ())
            return
        out = ref_apply(self.ref, self.env, op)
        if out[0] == "na":
            self.probe("skipped_inapplicable")
            log.add("OP", s=self.si, i=oi, op=name, out="na")
            return
        if out[0] == "inplace":
            self.step_inplace(oi, op, out[1])
            return
        operand_idx = [op[k] for k in ("a", "b") if isinstance(op.get(k), int)]
        snaps = [snapshot(o) for o in self.real]
        got, exc = self.try_real(op)
        self.executed += 1
        self.c["ops"][name] = self.c["ops"].get(name, 0) + 1
        if name in BINARY_OPS or name in CONVERSION_OPS or (name == "pred" and op["name"] not in PRED_UN):
            self.has_binary_or_conversion = True

        # which clauses this op exercises
        if out[0] == "raise":
            V.ev("labels_correct" if out[1] == "unknown_units" else "mixed_units_rejected")
        elif out[0] == "pred":
            if out[1] == "raise":
                V.ev("mixed_units_rejected")
        elif exc is None:
            V.ev("labels_correct")
            V.ev("units_list_consistent")
            V.ev("numbers_correct")

        fails, info = self.assess(op, out, got, exc)
        any_stale = any(self.stale[i] for i in operand_idx)
        needs_stale = set()
        if fails and any_stale:
            # does the failure need the stale units list, or does it happen anyway?
            f2, _ = self.assess(op, out, *self.redo_on_fresh_operands(op))
            needs_stale = {f[0] for f in fails} - {f[0] for f in f2}
        for clause, ident_extra, wit_extra, detail in fails:
            ident = self.ident(op, **ident_extra)
            ident["stale_units_operand"] = clause in needs_stale
            V.fail(clause, ident, self.witness(oi, op, **wit_extra), detail)
        if exc is not None and any_stale and out[0] in ("res", "pred") and not (out[0] == "pred" and out[1] != "ok"):
            self.probe("refused_with_stale_units_operand:" + (op["name"] if name == "pred" else name))

        if out[0] == "res":
            res = out[1]
            res.alt_labels, res.nums = None, "exact"
            if exc is not None:
                # refusal is never a violation; the documented result is built through the
                # public constructor so that the rest of the sequence keeps its meaning
                self.probe("refused:" + name)
                log.add("OP", s=self.si, i=oi, op=name, out="refused", exc=exc)
                new = (res, self.build(res), False)
            else:
                repair = any(f[0] in ("labels_correct", "numbers_correct") for f in fails)
                if info["adopt_labels"]:
                    res.labels = list(info["adopt_labels"])
                if info["adopt_vals"] is not None:
                    res.vals = info["adopt_vals"]  # adopt the verified real numbers
                res.nums = "exact"
                if repair:
                    self.probe("rebuilt_after_failure")
                    new = (res, self.build(res), False)
                else:
                    new = (res, got, info["stale"])
                log.add("OP", s=self.si, i=oi, op=name, out="res", labels=info["labels"], vals=info["vals"],
                        stale=info["stale"], repaired=repair)
        elif out[0] == "pred":
            if out[1] == "ok" and exc is not None:
                self.probe("refused:" + op["name"])
            log.add("OP", s=self.si, i=oi, op=name, p=op["name"], out=out[1], exc=exc,
                    ans=None if exc else bool(got))
        else:
            log.add("OP", s=self.si, i=oi, op=name, out="raise", exc=exc)

        self.check_pool_unchanged(oi, op, snaps, operand_idx)
        if name == "pred":
            self.predicate_equivalence(oi, op)
        if out[0] == "res":
            slot = ref_store(self.ref, op, new[0])
            if slot == len(self.real):
                self.real.append(new[1])
                self.stale.append(new[2])
            else:
                self.real[slot] = new[1]
                self.stale[slot] = new[2]

    def step_inplace(self, oi, op, want):
        """Index assignment / set_to_zero_after_month: the target takes the documented numbers, keeps its labels,
        and no other existing quantity (nor the assigned value) changes."""
        V, log, name = self.V, self.log, op["op"]
        t = op["a"]
        snaps = [snapshot(o) for o in self.real]
        tgt = self.real[t]
        int_dtype = [getattr(getattr(tgt, q, None), "dtype", None) is not None and getattr(tgt, q).dtype.kind in "iub"
                     for q in ("kcals", "fat", "protein")]
        if any(int_dtype):
            # a series built from integers is an integer array; numpy casts what is assigned into it. The statement is
            # about labels, not about this: the reference follows numpy's cast (counted in a probe)
            want = [[(int(x) if (int_dtype[q] and _isnum(x) and x == x and abs(x) < 2 ** 62) else x) for x in v]
                    for q, v in enumerate(want)]
            self.probe("inplace_on_integer_series")
        _got, exc = self.try_real(op)
        self.executed += 1
        self.c["ops"][name] = self.c["ops"].get(name, 0) + 1
        if exc is not None:
            self.probe("refused:" + name)
            log.add("OP", s=self.si, i=oi, op=name, out="refused", exc=exc)
            self.check_pool_unchanged(oi, op, snaps, [op[k] for k in ("a", "b") if isinstance(op.get(k), int)])
            return
        V.ev("numbers_correct")
        V.ev("labels_correct")
        V.ev("units_list_consistent")
        same_obj = [k for k, o in enumerate(self.real) if o is self.real[t]]
        shape, vals, labels, ulist = real_view(self.real[t])
        ref = self.ref[t]
        ok_shape = shape == "m" and len(vals[0]) == ref.n
        bad = None
        if ok_shape:
            gf, wf = _flat(vals, "m"), [x for v in want for x in v]
            bad = [i for i, (x, r) in enumerate(zip(wf, gf)) if not close(x, r)]
        if not ok_shape or bad:
            V.fail("numbers_correct", self.ident(op, case="inplace", kind="value" if ok_shape else "shape"),
                   self.witness(oi, op, expected=want, got=vals, first_bad=bad[0] if bad else None),
                   "an in-place operation left its target with other numbers than documented")
        if labels != list(ref.labels):
            V.fail("labels_correct", self.ident(op, case="inplace"),
                   self.witness(oi, op, expected_labels=list(ref.labels), got_labels=labels),
                   "an in-place operation changed the labels of its target")
        log.add("OP", s=self.si, i=oi, op=name, out="inplace", vals=vals, labels=labels)
        if not ok_shape or bad or labels != list(ref.labels):
            self.probe("rebuilt_after_failure")
            ref.vals = [list(v) for v in want]
            fresh = self.build(ref)
            for k in same_obj:
                self.real[k] = fresh
                self.ref[k].vals = [list(v) for v in want]
        else:
            for k in same_obj:
                self.ref[k].vals = [list(v) for v in vals]
        operands = [op[k] for k in ("b",) if isinstance(op.get(k), int)]
        self.check_pool_unchanged(oi, op, snaps, operands, skip=same_obj)

    def predicate_equivalence(self, oi, op):
        """Clause (f): the predicate on single values vs. on the equivalent one-month series,
        under all four (include_fat, include_protein) settings."""
        V, F, p = self.V, self.F, op["name"]
        a = self.ref[op["a"]]
        b = self.ref[op["b"]] if isinstance(op.get("b"), int) else None

        def month(r):
            if r.shape == "s":
                return list(r.vals)
            return [v[op.get("month", 0) % r.n] for v in r.vals]

        av = month(a)
        bv = month(b) if b is not None else None
        base = [split_label(l)[0] for l in a.labels]
        each = [x + EACH for x in base]
        try:
            for inc_f in (True, False):
                for inc_p in (True, False):
                    self.set_env(include_fat=inc_f, include_protein=inc_p)
                    answers = []
                    for form in ("scalar", "monthly"):
                        if form == "scalar":
                            x = F(av[0], av[1], av[2], *base)
                            y = F(bv[0], bv[1], bv[2], *base) if bv is not None else None
                        else:
                            x = F([av[0]], [av[1]], [av[2]], *each)
                            y = F([bv[0]], [bv[1]], [bv[2]], *each) if bv is not None else None
                        try:
                            answers.append(bool(self.call_pred(p, x, y)))
                        except Exception as e:  # noqa
                            answers.append("raised:" + type(e).__name__)
                    V.ev("predicate_scalar_equals_monthly")
                    self.log.add("PRED", s=self.si, i=oi, p=p, f=inc_f, pr=inc_p, ans=answers)
                    if answers[0] != answers[1]:
                        doc = doc_pred(p, av, bv, inc_f, inc_p)
                        wrong = "scalar" if answers[0] != doc else "monthly"
                        if answers[0] != doc and answers[1] != doc:
                            wrong = "both"
                        V.fail("predicate_scalar_equals_monthly",
                               {"op": p, "include_fat": inc_f, "include_protein": inc_p, "wrong_form": wrong},
                               {"sequence": self.si, "op_index": oi, "a": av, "b": bv, "labels": base,
                                "scalar_answer": answers[0], "one_month_series_answer": answers[1],
                                "documented_answer": doc},
                               "predicate answers differently for a single value and the equivalent one-month series")
        finally:
            self.set_env()


def run_history(spec, prop):
    F = world.mods().food.Food
    V = Verdicts(prop)
    log = core.EventLog()
    counters = {"probes": {}, "ops": {}}
    nontrivial = []
    n_ops = 0
    with world.quiet():
        for si, seq in enumerate(spec["seqs"]):
            r = SeqRunner(F, si, seq, V, log, counters)
            nt = r.run()
            n_ops += r.executed
            if nt:
                nontrivial.append(core.digest(seq))
    probes = dict(counters["probes"])
    for k, v in counters["ops"].items():
        probes["op:" + k] = v
    probes["sequences"] = len(spec["seqs"])
    sample = spec["seqs"][0] if spec["seqs"] else {}
    return {
        "violations": [v.to_json() for v in V.violations],
        "evaluations": n_ops,
        "nontrivial": nontrivial,
        "clauses": V.clauses,
        "faults": core.fault_counts(log),
        "probes": probes,
        "statuses": {},
        "log_digest": log.digest(),
        "sim_months": 0,
        "aborts": 0,
        "sample": sample,
    }


# ----------------------------------------------------------------------------- shrinking
def _simpler_numbers(op):
    """One 'next simpler' version of the literal numbers of an op, or None."""
    def walk(x, fn):
        if isinstance(x, list):
            return [walk(y, fn) for y in x]
        return fn(x) if _isnum(x) else x

    def flat(x):
        if isinstance(x, list):
            return [z for y in x for z in flat(y)]
        return [x] if _isnum(x) else []

    for key in ("vals", "x", "arr", "ratios"):
        if key not in op:
            continue
        nums = flat(op[key])
        if any(isinstance(v, float) and v != int(v) for v in nums if abs(v) < 1e15):
            fn = lambda v: int(round(v)) if abs(v) >= 0.5 else (0 if key != "ratios" else 1)  # noqa
        elif any(v not in (0, 1) for v in nums):
            fn = lambda v: v if v in (0, 1) else (1 if v > 0 else (0 if key != "ratios" else 1))  # noqa
        else:
            continue
        new = dict(op)
        new[key] = walk(op[key], fn)
        if new[key] != op[key]:
            return new
    return None


def shrink_spec(spec):
    seqs = spec["seqs"]

    def with_seqs(s):
        return {"h": spec["h"], "seqs": s}

    if len(seqs) > 1:
        k = min(16, len(seqs))
        size = -(-len(seqs) // k)
        for c in range(0, len(seqs), size):
            yield with_seqs(seqs[c:c + size])
        return
    if not seqs:
        return
    seq = seqs[0]
    ops = seq["ops"]
    n = len(ops)

    def with_ops(o, env=None):
        return with_seqs([{"env": env or seq["env"], "ops": o}])

    for cut in sorted({n // 2, n - 1}):
        if 0 < cut < n:
            yield with_ops(ops[:cut])
    if n > 12:
        q = -(-n // 4)
        for c in range(0, n, q):
            yield with_ops(ops[:c] + ops[c + q:])
    for i in reversed(range(n)):
        if n > 1:
            yield with_ops(ops[:i] + ops[i + 1:])
    if any(o["op"] == "env" for o in ops):
        yield with_ops([o for o in ops if o["op"] != "env"])
    # drop an op that appended a pool object and renumber the later references
    pool, envc, appended = [], dict(seq["env"]), {}
    for i, o in enumerate(ops):
        if o["op"] == "env":
            env_apply(envc, o)
            continue
        out = ref_apply(pool, envc, o)
        if out[0] == "res":
            before = len(pool)
            slot = ref_store(pool, o, out[1])
            if slot == before:
                appended[i] = slot
    for i in reversed(sorted(appended)):
        k = appended[i]
        rest, ok = [], True
        for o in ops[i + 1:]:
            o = dict(o)
            for key in ("a", "b", "out"):
                v = o.get(key)
                if isinstance(v, int) and not isinstance(v, bool):
                    if v == k and key != "out":
                        ok = False
                    elif v > k:
                        o[key] = v - 1
            rest.append(o)
        if ok and n > 1:
            yield with_ops(ops[:i] + rest)
    # operands are pool positions: point them at earlier objects so that the ops which
    # only filled the pool can be dropped afterwards
    for i in reversed(range(n)):
        for k in ("a", "b", "out"):
            v = ops[i].get(k)
            if isinstance(v, int) and v > 0:
                for nv in sorted({0, v - 1}):
                    o = dict(ops[i])
                    o[k] = nv
                    yield with_ops(ops[:i] + [o] + ops[i + 1:])
    if seq["env"] != _ENV_DEFAULT:
        yield with_ops(ops, env=dict(_ENV_DEFAULT))
        for flag in ("include_fat", "include_protein"):
            e = dict(_ENV_DEFAULT)
            e[flag] = seq["env"][flag]
            if e != seq["env"]:
                yield with_ops(ops, env=e)
    for i, o in enumerate(ops):
        s = _simpler_numbers(o)
        if s is not None:
            yield with_ops(ops[:i] + [s] + ops[i + 1:])
