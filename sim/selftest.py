"""Self-tests of the machinery (evidence about the harness, not about the repo).

    ./check selftest determinism [IDs...]     same seed twice, 16 vs 3 workers, and in a fresh
                                              interpreter under another PYTHONHASHSEED: the
                                              per-history event-log digests and verdicts must agree
    ./check selftest mutants [names...]       apply each seeded change under /verif/seeded/<name>/patch.diff
                                              to a scratch worktree and run the checks listed in its
                                              meta.json against it (VERIF_REPO): each must report a violation
"""

import importlib
import json
import os
import subprocess
import sys
import time

from . import core, runner

DEFAULT_IDS = ["C01", "C02", "C03", "C04", "C05", "C06", "C07", "C08", "C09", "C11", "C13", "C14", "C15", "C18"]
N_HIST = {"quick": 6, "thorough": 24}


def _digests(mod, seed, n, workers):
    specs = [mod.generate(seed, h, "quick") for h in range(n)]
    os.environ["VERIF_WORKERS"] = str(workers)
    res = runner.run_specs(mod, specs, mod.TIERS["quick"].get("timeout", 300))
    out = []
    for st, val in res:
        if st != "ok":
            out.append(["harness:" + st, str(val)[-300:]])
        else:
            out.append([val.get("log_digest"), core.digest(val.get("violations")), core.digest(val.get("clauses")), val.get("evaluations")])
    return out


def determinism(tier, seed, ids):
    ids = ids or DEFAULT_IDS
    n = N_HIST[tier]
    bad = 0
    report = {}
    for pid in ids:
        try:
            mod = importlib.import_module("sim.checks.%s" % pid.lower())
        except ImportError:
            print("  %s: no such check (skipped)" % pid)
            continue
        if hasattr(mod, "prepare"):
            mod.prepare()
        t0 = time.monotonic()
        a = _digests(mod, seed, n, 16)
        b = _digests(mod, seed, n, 3)
        env = dict(os.environ, PYTHONHASHSEED="12345", VERIF_WORKERS="8")
        p = subprocess.run([sys.executable, os.path.join(core.VERIF_DIR, "sim", "cli.py"), "--seed", str(seed), "selftest",
                            "_digests", pid, str(n)], env=env, capture_output=True, text=True, cwd=core.VERIF_DIR)
        c = None
        for line in p.stdout.splitlines():
            if line.startswith("DIGESTS "):
                c = json.loads(line[8:])
        ok = a == b == c and not any(str(x[0]).startswith("harness") for x in a)
        report[pid] = {"histories": n, "same_16_vs_3_workers": a == b, "same_in_fresh_interpreter_other_hashseed": a == c,
                       "wall_s": round(time.monotonic() - t0, 1), "seed": seed, "tier": tier}
        print("  %s: %d histories x 3 executions: %s (%.0fs)" % (pid, n, "identical" if ok else "DIFFERENT", time.monotonic() - t0), flush=True)
        if not ok:
            bad += 1
            for i, (x, y, z) in enumerate(zip(a, b, c or [None] * n)):
                if not (x == y == z):
                    print("    history %d: %s | %s | %s" % (i, x, y, z))
            if c is None:
                print("    fresh interpreter output: %s" % (p.stdout[-500:] + p.stderr[-500:]))
    os.makedirs(os.path.join(core.VERIF_DIR, "selftest"), exist_ok=True)
    path = os.path.join(core.VERIF_DIR, "selftest", "determinism.json")
    try:  # entries of checks not run this time are kept (each carries its own seed and tier)
        with open(path) as f:
            old = json.load(f).get("report", {})
    except (OSError, ValueError):
        old = {}
    old.update(report)
    with open(path, "w") as f:
        json.dump({"seed": seed, "tier": tier, "report": old}, f, indent=1, sort_keys=True)
    if bad:
        print("HARNESS-ERROR selftest determinism: %d checks not deterministic" % bad)
        return core.EXIT_HARNESS
    print("selftest determinism: all identical")
    return 0


def main(tier, seed, rest):
    what = rest[0] if rest else "determinism"
    if what == "_digests":
        mod = importlib.import_module("sim.checks.%s" % rest[1].lower())
        if hasattr(mod, "prepare"):
            mod.prepare()
        print("DIGESTS " + json.dumps(_digests(mod, seed, int(rest[2]), int(os.environ.get("VERIF_WORKERS", "8")))))
        return 0
    if what == "determinism":
        return determinism(tier, seed, rest[1:])
    if what == "mutants":
        from . import mutants

        return mutants.main(tier, seed, rest[1:])
    print("unknown selftest %s" % what)
    return core.EXIT_HARNESS
