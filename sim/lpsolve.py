"""In-process LP solving with HiGHS (scipy.optimize.linprog):

* solve_pulp_vertex: stand-in for the CBC process in `vertex` mode. Solves the very same
  pulp.LpProblem, then re-optimises a seeded random objective over the optimal face and
  returns that (alternative, equally optimal) vertex.
* solve_matrix: plain matrix-form solve used by the C02 reference model.
"""

import numpy as np
import scipy.sparse as sp
from scipy.optimize import linprog

# CBC's documented default primal/dual tolerance is 1e-7; the stand-in and the reference use the same.
HIGHS_OPTS = {"presolve": True, "primal_feasibility_tolerance": 1e-7, "dual_feasibility_tolerance": 1e-7}


class tolerance:
    """with tolerance(1e-9): ... - HiGHS feasibility tolerances for the solves inside (confirmation runs)."""

    def __init__(self, t):
        self.t = t

    def __enter__(self):
        self.saved = dict(HIGHS_OPTS)
        HIGHS_OPTS["primal_feasibility_tolerance"] = self.t
        HIGHS_OPTS["dual_feasibility_tolerance"] = self.t

    def __exit__(self, *a):
        HIGHS_OPTS.clear()
        HIGHS_OPTS.update(self.saved)
        return False


def pulp_to_matrix(lp):
    vs = lp.variables()
    index = {id(v): i for i, v in enumerate(vs)}
    n = len(vs)
    c = np.zeros(n)
    for v, coef in lp.objective.items():
        c[index[id(v)]] = coef
    c0 = lp.objective.constant
    ub_r, ub_c, ub_v, b_ub = [], [], [], []
    eq_r, eq_c, eq_v, b_eq = [], [], [], []
    for con in lp.constraints.values():
        rhs = -con.constant
        if con.sense == 0:
            r = len(b_eq)
            for v, coef in con.items():
                eq_r.append(r)
                eq_c.append(index[id(v)])
                eq_v.append(coef)
            b_eq.append(rhs)
        else:
            s = 1.0 if con.sense == -1 else -1.0  # >= rows are negated into <=
            r = len(b_ub)
            for v, coef in con.items():
                ub_r.append(r)
                ub_c.append(index[id(v)])
                ub_v.append(s * coef)
            b_ub.append(s * rhs)
    A_ub = sp.csr_matrix((ub_v, (ub_r, ub_c)), shape=(len(b_ub), n)) if b_ub else None
    A_eq = sp.csr_matrix((eq_v, (eq_r, eq_c)), shape=(len(b_eq), n)) if b_eq else None
    bounds = [(v.lowBound, v.upBound) for v in vs]
    return vs, c, c0, A_ub, np.array(b_ub), A_eq, np.array(b_eq), bounds


class _QuietFd:
    """HiGHS prints diagnostics straight to fd 1; keep them out of the check's stdout."""

    def __enter__(self):
        import os, sys

        try:
            sys.stdout.flush()
        except Exception:
            pass
        self._saved = os.dup(1)
        self._dn = os.open(os.devnull, os.O_WRONLY)
        os.dup2(self._dn, 1)

    def __exit__(self, *a):
        import os

        os.dup2(self._saved, 1)
        os.close(self._saved)
        os.close(self._dn)
        return False


def _lin(c, A_ub, b_ub, A_eq, b_eq, bounds, opts=None):
    with _QuietFd():
        return _lin0(c, A_ub, b_ub, A_eq, b_eq, bounds, opts)


def _lin0(c, A_ub, b_ub, A_eq, b_eq, bounds, opts=None, method="highs"):
    return linprog(
        c,
        A_ub=A_ub,
        b_ub=b_ub if A_ub is not None else None,
        A_eq=A_eq,
        b_eq=b_eq if A_eq is not None else None,
        bounds=bounds,
        method=method,
        options=opts or HIGHS_OPTS,
    )


def solve_pulp_vertex(lp, rng, stats=None):
    """Returns a PuLP status (1 optimal, -1 infeasible, -2 unbounded) after assigning
    variable values, or None when HiGHS could not decide (caller falls back to CBC)."""
    vs, c, c0, A_ub, b_ub, A_eq, b_eq, bounds = pulp_to_matrix(lp)
    sign = 1.0 if lp.sense == 1 else -1.0  # pulp: 1 = minimise, -1 = maximise
    try:
        res = _lin(sign * c, A_ub, b_ub, A_eq, b_eq, bounds)
    except Exception:
        return None
    if res.status == 2:
        # HiGHS is stricter than CBC on the +-1e-5 pins; let the real solver decide.
        return None
    if res.status == 3:
        lp.assignStatus(-2)
        return -2
    if res.status != 0:
        return None
    x = res.x
    zstar = float(sign * c @ x)
    if stats is not None:
        stats["solves"] += 1
    # second stage: random objective over the optimal face
    if rng is not None and np.any(c != 0):
        n = len(vs)
        tol = 1e-9 * max(1.0, abs(zstar))
        row = sp.csr_matrix((sign * c).reshape(1, n))
        A2 = sp.vstack([A_ub, row]).tocsr() if A_ub is not None else row
        b2 = np.concatenate([b_ub, [zstar + tol]]) if A_ub is not None else np.array([zstar + tol])
        k = max(1, int(n * (0.05 + 0.5 * rng.random())))
        cols = [rng.randrange(n) for _ in range(k)]
        for attempt in ("mixed", "nonneg"):
            w = np.zeros(n)
            for j in cols:
                w[j] = rng.random() * (1 if attempt == "nonneg" or rng.random() < 0.5 else -1)
            try:
                r2 = _lin(w, A2, b2, A_eq, b_eq, bounds)
            except Exception:
                break
            if r2.status == 0:
                if np.max(np.abs(r2.x - x)) > 1e-7 * (1 + np.max(np.abs(x))):
                    if stats is not None:
                        stats["alt_moved"] += 1
                x = r2.x
                break
            if r2.status != 3:
                break
    for v, val, (lo, hi) in zip(vs, x, bounds):
        val = float(val)
        if lo is not None and val < lo:
            val = float(lo)
        if hi is not None and val > hi:
            val = float(hi)
        v.varValue = val
    lp.assignStatus(1)
    return 1


def solve_matrix(c, A_ub, b_ub, A_eq, b_eq, bounds, maximize=False):
    """Returns (status, objective value, x). status: 'optimal'|'infeasible'|'unbounded'|'error'.
    Infeasibility is declared only if it persists at a primal tolerance of 1e-5: the code's
    round-2 pins are +-1e-5 (+-1e-4 for small populations) relative and sit on the edge."""
    s = -1.0 if maximize else 1.0
    try:
        res = _lin(s * np.asarray(c, float), A_ub, b_ub, A_eq, b_eq, bounds)
        for tol in (1e-6, 1e-5):
            # marginal instances: the code's own LP (round-2 pins of +-1e-5 / +-1e-4 relative) can be feasible
            # for CBC and infeasible for HiGHS below 1e-5 (SLV, all resilient foods: HiGHS rejects the code's
            # own PuLP model up to 1e-6 and accepts it at 1e-5 with the same optimum)
            if res.status != 2:
                break
            res = _lin(s * np.asarray(c, float), A_ub, b_ub, A_eq, b_eq, bounds,
                       dict(HIGHS_OPTS, primal_feasibility_tolerance=tol))
        if res.status == 4:
            # HiGHS "numerical difficulties": try the other HiGHS algorithms before giving up
            for method, opts in (("highs-ipm", HIGHS_OPTS), ("highs-ds", dict(HIGHS_OPTS, presolve=False))):
                with _QuietFd():
                    res = _lin0(s * np.asarray(c, float), A_ub, b_ub, A_eq, b_eq, bounds, opts, method)
                if res.status != 4:
                    break
    except Exception as e:  # pragma: no cover
        return "error:%s" % e, None, None
    if res.status == 0:
        return "optimal", float(s * res.fun), res.x
    return {2: "infeasible", 3: "unbounded"}.get(res.status, "error:%d" % res.status), None, None
