"""Core of the deterministic simulator: seeded streams, event log, digests, forked
worker pool with watchdog, ddmin, evidence and known-findings handling.

Rules kept everywhere in /verif/sim:
  * every random choice comes from Rng(seed, *labels); nothing else is random;
  * history h derives all of its streams from (seed, h): content does not depend on
    the number of workers or on which worker executes it;
  * logging never draws from a stream and never reads a real clock.
"""

import hashlib
import json
import math
import os
import pickle
import random
import select
import signal
import struct
import sys
import time
import traceback

VERIF_DIR = os.path.dirname(os.path.dirname(os.path.abspath(__file__)))
REPO_DIR = os.environ.get("VERIF_REPO", "/repo")
EVIDENCE_DIR = os.environ.get("VERIF_EVIDENCE_DIR") or os.path.join(VERIF_DIR, "evidence")
REPLAY_DIR = os.environ.get("VERIF_REPLAY_DIR") or os.path.join(VERIF_DIR, "replays")
KNOWN_FINDINGS = os.path.join(VERIF_DIR, "known_findings.jsonl")

EXIT_OK, EXIT_VIOLATION, EXIT_HARNESS = 0, 1, 2


# --------------------------------------------------------------------------- rng
class Rng(random.Random):
    """Independent stream per (seed, labels...)."""

    def __init__(self, seed, *labels):
        key = "/".join([str(seed)] + [str(x) for x in labels])
        h = hashlib.sha256(key.encode()).digest()
        super().__init__(int.from_bytes(h[:16], "big"))
        self.key = key

    def sub(self, *labels):
        return Rng(self.key, *labels)

    def chance(self, p):
        return self.random() < p

    def pick(self, seq):
        return seq[self.randrange(len(seq))]


# --------------------------------------------------------------------------- canonical json / digests
def _canon(o):
    """JSON-able canonical form; floats by repr so that digests are bit-exact."""
    import numpy as np

    if o is None or isinstance(o, (bool, str)):
        return o
    if isinstance(o, (int,)) and not isinstance(o, bool):
        return o
    if isinstance(o, float):
        if math.isnan(o):
            return "NaN"
        if math.isinf(o):
            return "Inf" if o > 0 else "-Inf"
        return float(o).hex()
    if isinstance(o, (np.integer,)):
        return int(o)
    if isinstance(o, (np.floating,)):
        return _canon(float(o))
    if isinstance(o, (np.bool_,)):
        return bool(o)
    if isinstance(o, np.ndarray):
        return [_canon(x) for x in o.tolist()]
    if isinstance(o, dict):
        return {str(k): _canon(o[k]) for k in sorted(o, key=str)}
    if isinstance(o, (list, tuple)):
        return [_canon(x) for x in o]
    if isinstance(o, (set, frozenset)):
        return sorted(_canon(x) for x in o)
    return repr(o)


def digest(o):
    return hashlib.sha256(
        json.dumps(_canon(o), sort_keys=True, separators=(",", ":")).encode()
    ).hexdigest()


def jsonable(o):
    """Readable JSON-able form (floats stay floats) for evidence / replay files."""
    import numpy as np

    if o is None or isinstance(o, (bool, str, int)):
        return o
    if isinstance(o, float):
        if math.isnan(o) or math.isinf(o):
            return repr(o)
        return o
    if isinstance(o, np.integer):
        return int(o)
    if isinstance(o, np.floating):
        return jsonable(float(o))
    if isinstance(o, np.bool_):
        return bool(o)
    if isinstance(o, np.ndarray):
        return [jsonable(x) for x in o.tolist()]
    if isinstance(o, dict):
        return {str(k): jsonable(v) for k, v in o.items()}
    if isinstance(o, (list, tuple)):
        return [jsonable(x) for x in o]
    if isinstance(o, (set, frozenset)):
        return sorted(jsonable(x) for x in o)
    return repr(o)


class EventLog:
    """Per-history log: (seq, kind, payload). No wall time, pids or temp names."""

    def __init__(self):
        self.events = []

    def add(self, _kind, **payload):
        self.events.append((len(self.events), _kind, payload))

    def digest(self):
        return digest(self.events)

    def kinds(self):
        c = {}
        for _, k, _p in self.events:
            c[k] = c.get(k, 0) + 1
        return c


def fault_counts(log):
    """Faults that actually fired in a history, by kind (from the event log)."""
    out = {}
    for _seq, kind, payload in log.events:
        if kind == "FAULT":
            k = str(payload.get("kind")).split(":")[0]
            out[k] = out.get(k, 0) + 1
        elif kind == "BUGGIFY":
            k = "buggify_" + str(payload.get("site"))
            out[k] = out.get(k, 0) + 1
    return out


# --------------------------------------------------------------------------- violations
class Violation:
    """One failed clause. identity = what the known-findings file matches on."""

    def __init__(self, prop, clause, identity, witness, detail=""):
        self.prop = prop
        self.clause = clause
        self.identity = identity  # dict, small, stable
        self.witness = witness  # JSON-able data showing the failure
        self.detail = detail

    def key(self):
        return (self.prop, self.clause)

    def to_json(self):
        return {
            "property": self.prop,
            "clause": self.clause,
            "identity": jsonable(self.identity),
            "witness": jsonable(self.witness),
            "detail": self.detail,
        }

    @staticmethod
    def from_json(d):
        return Violation(
            d["property"], d["clause"], d.get("identity", {}), d.get("witness"), d.get("detail", "")
        )


def load_known_findings(path=KNOWN_FINDINGS):
    """Lines: JSON records {"status":"open"|"fixed", "property", "clause", "match":{...}, "what"}.
    Only 'open' records suppress anything."""
    out = []
    if not os.path.exists(path):
        return out
    with open(path) as f:
        for line in f:
            line = line.strip()
            if not line or line.startswith("#") or line.startswith("fixed:"):
                continue  # "fixed:" lines document repaired defects and suppress nothing
            out.append(json.loads(line))
    return out


def finding_matches(rec, v):
    """A record matches a violation when property and clause agree and every key of
    rec["match"] equals (or, for list values, contains) the violation's identity value."""
    if rec.get("status", "open") != "open":
        return False
    if rec["property"] != v.prop or rec["clause"] != v.clause:
        return False
    for k, want in rec.get("match", {}).items():
        got = v.identity.get(k)
        if isinstance(want, list):
            if got not in want:
                return False
        elif got != want:
            return False
    return True


# --------------------------------------------------------------------------- fork pool
class HarnessError(Exception):
    pass


def _child_main(fn, task, wfd):
    try:
        try:
            res = ("ok", fn(task))
        except BaseException:  # noqa: the child must always report
            res = ("exc", traceback.format_exc())
        data = pickle.dumps(res, protocol=pickle.HIGHEST_PROTOCOL)
        with os.fdopen(wfd, "wb", closefd=True) as w:
            w.write(struct.pack("<Q", len(data)))
            w.write(data)
            w.flush()
    finally:
        os._exit(0)


def run_forked(tasks, fn, workers=None, timeout=300, progress=None):
    """Run fn(task) for every task, each in a freshly forked child of this process.
    Returns list of (status, value) in task order; status in ok|exc|timeout|dead.
    A fresh child per task gives perfect isolation between histories and makes the
    outcome independent of the worker count."""
    workers = workers or int(os.environ.get("VERIF_WORKERS", os.cpu_count() or 4))
    results = [None] * len(tasks)
    running = {}  # rfd -> (idx, pid, start, buf)
    nxt = 0
    done = 0
    sys.stdout.flush()
    sys.stderr.flush()
    while done < len(tasks):
        while nxt < len(tasks) and len(running) < workers:
            r, w = os.pipe()
            pid = os.fork()
            if pid == 0:
                os.close(r)
                for fd in list(running):
                    try:
                        os.close(fd)
                    except OSError:
                        pass
                signal.signal(signal.SIGINT, signal.SIG_DFL)
                _child_main(fn, tasks[nxt], w)
            os.close(w)
            os.set_blocking(r, False)
            running[r] = [nxt, pid, time.monotonic(), bytearray()]
            nxt += 1
        rl, _, _ = select.select(list(running), [], [], 1.0)
        now = time.monotonic()
        for r in rl:
            ent = running[r]
            try:
                chunk = os.read(r, 1 << 20)
            except BlockingIOError:
                continue
            if chunk:
                ent[3].extend(chunk)
                continue
            # EOF
            os.close(r)
            del running[r]
            os.waitpid(ent[1], 0)
            buf = bytes(ent[3])
            if len(buf) >= 8 and struct.unpack("<Q", buf[:8])[0] == len(buf) - 8:
                results[ent[0]] = pickle.loads(buf[8:])
            else:
                results[ent[0]] = ("dead", "child exited without a result")
            done += 1
            if progress:
                progress(done, len(tasks))
        for r in list(running):
            ent = running[r]
            if now - ent[2] > timeout:
                try:
                    os.kill(ent[1], signal.SIGKILL)
                except ProcessLookupError:
                    pass
                os.waitpid(ent[1], 0)
                os.close(r)
                del running[r]
                results[ent[0]] = ("timeout", "history exceeded %ds" % timeout)
                done += 1
    return results


# --------------------------------------------------------------------------- ddmin
def ddmin(items, still_fails, max_tests=60):
    """Classic delta debugging on a list; still_fails(sublist) -> bool. Bounded."""
    n = 2
    tests = 0
    items = list(items)
    while len(items) >= 2 and tests < max_tests:
        chunk = max(1, len(items) // n)
        subsets = [items[i : i + chunk] for i in range(0, len(items), chunk)]
        reduced = False
        for i, s in enumerate(subsets):
            comp = [x for j, ss in enumerate(subsets) if j != i for x in ss]
            tests += 1
            if comp and still_fails(comp):
                items = comp
                n = max(n - 1, 2)
                reduced = True
                break
            if tests >= max_tests:
                break
        if not reduced:
            if n >= len(items):
                break
            n = min(len(items), n * 2)
    return items


# --------------------------------------------------------------------------- evidence
def write_evidence(prop, tier, seed, level, coverage, assumptions, wall_s, violations, extra=None):
    os.makedirs(EVIDENCE_DIR, exist_ok=True)
    ev = {
        "property_id": prop,
        "tier": tier,
        "seed": int(seed),
        "level": level,
        "coverage": jsonable(coverage),
        "assumptions": list(assumptions),
        "wall_s": round(float(wall_s), 3),
        "violations": int(violations),
    }
    if extra:
        ev.update(jsonable(extra))
    tmp = os.path.join(EVIDENCE_DIR, ".%s.json.tmp" % prop)
    with open(tmp, "w") as f:
        json.dump(ev, f, indent=1, sort_keys=True)
    os.replace(tmp, os.path.join(EVIDENCE_DIR, "%s.json" % prop))
    return ev


def write_replay(prop, seed, n, payload):
    os.makedirs(REPLAY_DIR, exist_ok=True)
    path = os.path.join(REPLAY_DIR, "%s-%s-%d.json" % (prop, seed, n))
    with open(path, "w") as f:
        json.dump(jsonable(payload), f, indent=1, sort_keys=True)
    return path


def merge_counts(dst, src):
    for k, v in src.items():
        if isinstance(v, dict):
            merge_counts(dst.setdefault(k, {}), v)
        elif isinstance(v, (int, float)):
            dst[k] = dst.get(k, 0) + v
    return dst
