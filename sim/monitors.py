"""Monitors / reference models evaluated on the traces recorded by engine P.

Each monitor is written from the property statement and the documentation, not by
re-evaluating repo objects: it takes raw variable values, supplies and results and
recomputes what the statement promises. Tolerances are fixed in DESIGN.md section 5.
"""

import io
import os

import numpy as np

from . import core


class Verdicts:
    def __init__(self, prop, ident_base=None):
        self.prop = prop
        self.violations = []
        self.clauses = {}
        self.base = ident_base or {}
        self._seen = set()
        self.max_resid = {}

    def ev(self, clause, n=1):
        self.clauses[clause] = self.clauses.get(clause, 0) + n

    def resid(self, clause, r):
        if r == r:
            self.max_resid[clause] = max(self.max_resid.get(clause, 0.0), float(r))

    def fail(self, clause, identity, witness, detail=""):
        ident = dict(self.base)
        ident.update(identity)
        key = (clause, core.digest(ident))
        if key in self._seen:
            return
        self._seen.add(key)
        self.violations.append(core.Violation(self.prop, clause, ident, witness, detail))

    def check(self, clause, ok, identity, witness, detail=""):
        self.ev(clause)
        if not ok:
            self.fail(clause, identity, witness() if callable(witness) else witness, detail)
        return ok


def _ctx(trace, rec):
    ci = rec["consts"]["inputs"]
    return {
        "iso3": ci.get("COUNTRY_CODE"),
        "round": rec["index"] + 1,
        "type": rec["type"],
    }


def job_regime(ci):
    """Small, stable description of the regime a job ran in (used in identities)."""
    return {
        "store": bool(ci["STORE_FOOD_BETWEEN_YEARS"]),
        "breeding": ci.get("BREEDING_STRATEGY"),
    }


def first_bad(mask):
    idx = np.where(mask)[0]
    return int(idx[0]) if len(idx) else None


# =========================================================================== C04
def c04(trace, V):
    import pandas as pd

    for rec in trace.rounds:
        if "interp" not in rec or "vars" not in rec:
            continue
        co, tc, x, ip = rec["consts"], rec["time_consts"], rec["vars"], rec["interp"]
        N = co["NMONTHS"]
        need, kd = co["BILLION_KCALS_NEEDED"], co["KCALS_DAILY"]
        K = co["SEAWEED_KCALS"]
        idn = {"round_type": rec["type"]}
        raw = {
            "stored_food": x["stored_food_to_humans"] * 1.0,
            "seaweed": x["seaweed_to_humans"] * K,
            "scp": x["methane_scp_to_humans"] * 1.0,
            "cell_sugar": x["cellulosic_sugar_to_humans"] * 1.0,
            "meat": x["meat_eaten"] * 1.0,
            "milk": np.array(tc["milk_kcals"], float),
            "greenhouse": np.array(tc["greenhouse_crops"].kcals, float),
            "fish": np.array(tc["fish"].to_humans.kcals, float),
            "outdoor_crops": x["crops_food_to_humans"] * 1.0,
        }
        # (1) every contribution equals the allocation converted to the reporting unit
        for name, arr in raw.items():
            want = arr / need * kd
            if name == "outdoor_crops":
                got = ip["immediate_outdoor_crops"] + ip["new_stored_outdoor_crops"]
                clause = "crop_split_adds_up"
            else:
                got = ip[name]
                clause = "contribution_equals_allocation"
            tol = 1e-9 * (1 + np.abs(want))
            bad = np.abs(got - want) > tol
            V.resid(clause, float(np.max(np.abs(got - want) / (1 + np.abs(want)))))
            V.check(clause, not bad.any(), dict(idn, food=name),
                    lambda: {"month": first_bad(bad), "reported": got[bad][:3], "from_allocation": want[bad][:3]},
                    "reported %s differs from optimiser allocation in reporting units" % name)
        # (2) headline = min over months of the sum of the contributions
        total_pct = sum(raw.values()) / need * 100
        headline = ip["percent_people_fed"]
        cols = ["fish", "cell_sugar", "scp", "greenhouse", "seaweed", "milk", "meat", "immediate_outdoor_crops",
                "new_stored_outdoor_crops", "stored_food"]
        col_sum_pct = sum(ip[c] for c in cols) / kd * 100
        V.resid("headline_is_min_of_sum", abs(headline - float(total_pct.min())) / (1 + abs(headline)))
        V.check("headline_is_min_of_sum", abs(headline - float(col_sum_pct.min())) <= 1e-9 * (1 + abs(headline))
                and abs(headline - float(total_pct.min())) <= 1e-9 * (1 + abs(headline)), idn,
                lambda: {"headline": headline, "min_sum_of_reported_columns": float(col_sum_pct.min()),
                         "min_sum_from_allocation": float(total_pct.min())},
                "headline percent fed is not the minimum over months of the summed contributions")
        rep = sum(ip["pct_" + n] for n in ["stored_food", "outdoor_crops", "seaweed", "cell_sugar", "scp", "greenhouse", "fish", "meat", "milk"])
        V.check("headline_is_min_of_sum", abs(headline - float(rep.min())) <= 2e-3, dict(idn, series="percent"),
                lambda: {"headline": headline, "min_sum_percent_series": float(rep.min())})
        # (3) headline within 0.01 % of the optimiser's optimum (human rounds)
        if rec["type"] == "to_humans":
            opt = rec["optimum"]
            V.resid("headline_vs_optimum", abs(headline - opt) / max(1e-12, abs(opt)))
            # absolute slack 1e-6 percentage points: CBC's 1e-7 primal tolerance on the percent-fed rows with one
            # order of head-room; without it "0.01 %" of a near-zero optimum (1e-6 % fed) is below solver precision
            V.check("headline_vs_optimum", opt * (1 - 1e-4) - 1e-6 <= headline <= opt * (1 + 5e-5) + 1e-6, idn,
                    lambda: {"headline": headline, "optimum": opt, "relative": (headline - opt) / max(1e-12, abs(opt))},
                    "headline differs from the optimiser's own optimum by more than 0.01 %")
        # (4) the table on disk for this round holds the returned numbers. If no write was observed
        # (a run that trusts an existing file) the documented path is read anyway.
        if rec.get("csv_path") is None and rec.get("csv_expected_path"):
            rec = dict(rec, csv_path=rec["csv_expected_path"], csv_text=rec.get("csv_expected_text"))
            V.ev("csv_no_write_observed")
        if rec.get("csv_path") is not None:
            txt = rec.get("csv_text")
            ok_file = txt is not None
            V.check("csv_equals_result", ok_file, dict(idn, what="missing"), {"path": rec.get("csv_path")},
                    "interpret_results returned but the table is not on disk")
            if ok_file:
                try:
                    df = pd.read_csv(io.StringIO(txt), float_precision="round_trip", index_col=0)
                    shape_ok = list(df.columns) == cols and len(df) == N
                except Exception as e:  # torn / unparsable
                    df, shape_ok = None, False
                V.check("csv_equals_result", shape_ok, dict(idn, what="shape"),
                        lambda: {"columns": None if df is None else list(df.columns), "rows": None if df is None else len(df), "N": N},
                        "saved table does not have N rows and the ten documented columns")
                if shape_ok:
                    for c in cols:
                        a = df[c].to_numpy(float)
                        bad = ~((a == ip[c]) | (np.isnan(a) & np.isnan(ip[c])))
                        V.check("csv_equals_result", not bad.any(), dict(idn, what="values", column=c),
                                lambda: {"month": first_bad(bad), "file": a[bad][:3], "returned": ip[c][bad][:3]},
                                "saved table differs from the returned result")


def c04_end_of_history(traces, V, fs_writes=None):
    """At the end of a history each path holds the numbers of its LAST writer. Paths whose
    last writer was a job that did not return (it raised after writing) are skipped: a run
    without a returned result promises nothing about its files."""
    writes = list(fs_writes or [])

    def last_writer_tag(doc_path):
        # the last job that wrote to the documented path or to a sibling whose name starts with the same stem
        # (a temporary file that is renamed into place counts as a write to the table)
        d, stem = os.path.dirname(doc_path), os.path.basename(doc_path).rsplit(".", 1)[0]
        tag = None
        for _idx, path, tg in writes:
            if path == doc_path or (os.path.dirname(path) == d and os.path.basename(path).startswith(stem)):
                tag = tg
        return tag

    last = {}
    for t in traces:
        for rec in t.rounds:
            if rec.get("csv_path") and rec.get("csv_text") is not None:
                last[rec["csv_path"]] = (rec["csv_text"], t.spec.get("tag"), t.status)
    for path, (txt, tag, status) in sorted(last.items()):
        if status != "ok" or (fs_writes is not None and last_writer_tag(path) != tag):
            continue
        try:
            with open(path) as f:
                now = f.read()
        except OSError:
            now = None
        V.check("csv_last_writer", now == txt, {"what": "last_writer"}, {"path": path.split("/")[-1], "on_disk_len": None if now is None else len(now)},
                "a result file does not hold the numbers of the last run that wrote it")


# =========================================================================== C01
def _tol(*terms):
    return 1e-6 * (1 + sum(float(np.max(np.abs(t))) if np.size(t) else 0.0 for t in terms))


def c01(trace, V):
    for rec in trace.rounds:
        if "vars" not in rec or rec.get("status") != 1:
            continue
        co, tc, x = rec["consts"], rec["time_consts"], rec["vars"]
        ci = co["inputs"]
        N = co["NMONTHS"]
        kind = rec["type"]
        store = bool(co["STORE_FOOD_BETWEEN_YEARS"])
        idn = {"round_type": kind, "store": store}
        K = co["SEAWEED_KCALS"]

        def w(key):
            return co[key] / 100.0

        # ---- non-negativity of every allocation and stock
        for name, arr in x.items():
            if name.startswith("_") or not isinstance(arr, np.ndarray):
                continue
            if name.startswith("consumed_") or name.endswith("_fat") or name.endswith("_protein"):
                continue  # percent-fed auxiliaries; fat/protein copies are not modelled when not required
            if not x.get("_modelled_" + name) or np.isnan(arr).any():
                continue
            lim = -1e-6 * (1 + float(np.max(np.abs(arr))))
            V.check("non_negative", bool((arr >= lim).all()), dict(idn, series=name),
                    lambda: {"month": first_bad(arr < lim), "value": float(arr.min())}, "negative quantity in a solved allocation")

        # ---- stored food
        if co["ADD_STORED_FOOD"] and x.get("_modelled_stored_food_to_humans"):
            S0 = float(np.sum(co["stored_food"].initial_available.kcals)) if np.ndim(co["stored_food"].initial_available.kcals) else float(co["stored_food"].initial_available.kcals)
            use = x["stored_food_to_humans"] / (1 - w("STORED_FOOD_WASTE_RETAIL")) + x["stored_food_feed"] + x["stored_food_biofuel"]
            cum = np.cumsum(use)
            tol = _tol(S0, cum)
            bad = cum > S0 + tol
            V.resid("stored_food_ledger", float(np.max(cum - S0)) / (1 + S0))
            V.check("stored_food_ledger", not bad.any(), idn, lambda: {"month": first_bad(bad), "cumulative_use": float(cum[bad][0]), "initial_stock": S0},
                    "cumulative use of stored food exceeds the initial stock")
            if not store:
                late = use[13:]
                V.check("stored_food_ledger", bool((np.abs(late) <= tol).all()) if len(late) else True, dict(idn, sub="first_year_only"),
                        lambda: {"max_use_after_month_12": float(np.max(np.abs(late)))})
            if kind == "to_humans" and store:
                V.resid("exhausted_at_end", abs(S0 - cum[-1]) / (1 + S0))
                V.check("exhausted_at_end", abs(S0 - cum[-1]) <= tol * 10, dict(idn, food="stored_food"),
                        lambda: {"left": S0 - float(cum[-1]), "initial_stock": S0}, "stored food is not fully used by the last month")
        # ---- crops
        if co["ADD_OUTDOOR_GROWING"] and x.get("_modelled_crops_food_to_humans"):
            prod = np.array(tc["outdoor_crops"].production.kcals, float)
            use = x["crops_food_to_humans"] / (1 - w("CROP_WASTE_RETAIL")) + x["crops_food_feed"] + x["crops_food_biofuel"]
            cum, cprod = np.cumsum(use), np.cumsum(prod)
            tol = _tol(cprod, cum)
            bad = cum > cprod + tol
            V.resid("crops_ledger", float(np.max((cum - cprod) / (1 + cprod))))
            V.check("crops_ledger", not bad.any(), idn, lambda: {"month": first_bad(bad), "cumulative_use": float(cum[bad][0]), "harvested_so_far": float(cprod[bad][0])},
                    "cumulative use of crops exceeds what has been harvested so far")
            if kind == "to_humans":
                V.resid("exhausted_at_end", abs(cprod[-1] - cum[-1]) / (1 + cprod[-1]))
                V.check("exhausted_at_end", abs(cprod[-1] - cum[-1]) <= tol * 10, dict(idn, food="crops"),
                        lambda: {"left": float(cprod[-1] - cum[-1]), "harvested": float(cprod[-1])}, "harvested crops are not fully used by the last month")
        # ---- meat
        if co["ADD_MEAT"] and x.get("_modelled_meat_eaten"):
            sl = np.array(tc["each_month_meat_slaughtered"].kcals, float)
            eat = x["meat_eaten"] / (1 - w("MEAT_WASTE_RETAIL"))
            if store:
                cum, csl = np.cumsum(eat), np.cumsum(sl)
                tol = _tol(csl, cum)
                bad = cum > csl + tol
                V.resid("meat_ledger", float(np.max((cum - csl) / (1 + csl))))
                # does the rule the code documents hold? (monthly cap by the running slaughter
                # total + cap on the horizon total) - used to tell the known class apart
                running = np.array(tc["max_consumed_culled_kcals_each_month"], float)
                doc_ok = bool((eat <= running + _tol(running, eat)).all()) and float(eat.sum()) <= float(co["meat_summed_consumption"]) + tol
                V.check("meat_ledger", not bad.any(),
                        dict(idn, sub="cumulative", documented_rule="holds" if doc_ok else "violated"),
                        lambda: {"month": first_bad(bad), "cumulative_eaten": float(cum[bad][0]), "slaughtered_so_far": float(csl[bad][0]),
                                 "total_slaughtered": float(csl[-1])},
                        "cumulative meat eaten exceeds what has been slaughtered so far")
            else:
                tol = _tol(sl, eat)
                bad = eat > sl + tol
                V.check("meat_ledger", not bad.any(), dict(idn, sub="monthly"),
                        lambda: {"month": first_bad(bad), "eaten": float(eat[bad][0]), "slaughtered": float(sl[bad][0])},
                        "meat eaten in a month exceeds that month's slaughter (no storage)")
        # ---- SCP / cellulosic sugar monthly caps
        for flag, pre, wkey, tkey, clause in [
            ("ADD_METHANE_SCP", "methane_scp", "SCP_RETAIL_WASTE", "methane_scp", "scp_cap"),
            ("ADD_CELLULOSIC_SUGAR", "cellulosic_sugar", "CELL_SUGAR_RETAIL_WASTE", "cellulosic_sugar", "sugar_cap"),
        ]:
            if co[flag] and x.get("_modelled_%s_to_humans" % pre):
                prod = np.array(tc[tkey].kcals, float)
                use = x[pre + "_to_humans"] / (1 - w(wkey)) + x[pre + "_feed"] + x[pre + "_biofuel"]
                tol = 1e-6 * (1 + np.abs(prod) + np.abs(use))
                bad = use > prod + tol
                V.resid(clause, float(np.max((use - prod) / (1 + prod))))
                V.check(clause, not bad.any(), idn, lambda: {"month": first_bad(bad), "use": float(use[bad][0]), "output": float(prod[bad][0])},
                        "monthly use exceeds that month's output")
        # ---- seaweed
        if co["ADD_SEAWEED"] and x.get("_modelled_seaweed_wet_on_farm"):
            wet, area = x["seaweed_wet_on_farm"], x["used_area"]
            h, f, b = x["seaweed_to_humans"], x["seaweed_feed"], x["seaweed_biofuel"]
            built = np.array(tc["built_area"], float)[:N]
            g = np.array(tc["growth_rates_monthly"], float)[:N] / 100.0
            init, dmax, dmin = co["INITIAL_SEAWEED"], co["MAXIMUM_DENSITY"], co["MINIMUM_DENSITY"]
            a0 = co["INITIAL_BUILT_SEAWEED_AREA"]
            hl = co["HARVEST_LOSS"] / 100.0
            ws = w("SEAWEED_WASTE_RETAIL")
            want = wet[:-1] * (1 + g[1:]) - h[1:] / (1 - ws) - f[1:] - b[1:] - (area[1:] - area[:-1]) * dmin * hl
            res = np.abs(wet[1:] - want)
            # every term of the row counts (values come back from CBC with 8 significant digits): the area term
            # can dominate the row when the used area changes a lot in one month
            scale = (1 + np.abs(wet[:-1] * (1 + g[1:])) + np.abs(h[1:]) + np.abs(f[1:]) + np.abs(b[1:])
                     + (np.abs(area[1:]) + np.abs(area[:-1])) * dmin * hl)
            bad = res > 1e-5 * scale
            V.resid("seaweed_ledger", float(np.max(res / scale)))
            V.check("seaweed_ledger", not bad.any(), dict(idn, sub="balance"),
                    lambda: {"month": first_bad(bad) + 1, "wet": float(wet[1:][bad][0]), "ledger": float(want[bad][0])},
                    "seaweed biomass does not follow its growth-and-harvest ledger")
            t1 = 1e-6 * (1 + np.abs(wet))
            bad = (wet < init - t1) | (wet > dmax * built + 1e-6 * (1 + dmax * built))
            V.check("seaweed_ledger", not bad.any(), dict(idn, sub="density_bounds"),
                    lambda: {"month": first_bad(bad), "wet": float(wet[bad][0]), "initial": init, "max": float((dmax * built)[bad][0])},
                    "seaweed biomass outside [starting level, density limit of built area]")
            bad = (area < a0 - 1e-6 * (1 + a0)) | (area > built + 1e-6 * (1 + built))
            V.check("seaweed_ledger", not bad.any(), dict(idn, sub="area_bounds"),
                    lambda: {"month": first_bad(bad), "used_area": float(area[bad][0]), "built": float(built[bad][0])})
            V.check("seaweed_ledger", abs(wet[0] - init) <= 1e-6 * (1 + init) and abs(area[0] - a0) <= 1e-6 * (1 + a0)
                    and abs(h[0]) + abs(f[0]) + abs(b[0]) <= 1e-6, dict(idn, sub="month0"),
                    lambda: {"wet0": float(wet[0]), "area0": float(area[0]), "use0": float(h[0] + f[0] + b[0])})
        # ---- feed / biofuel totals
        feed_tot = x["stored_food_feed"] + x["crops_food_feed"] + x["seaweed_feed"] * K + x["cellulosic_sugar_feed"] + x["methane_scp_feed"]
        bio_tot = x["stored_food_biofuel"] + x["crops_food_biofuel"] + x["seaweed_biofuel"] * K + x["cellulosic_sugar_biofuel"] + x["methane_scp_biofuel"]
        any_feed_source = any(x.get("_modelled_" + k) for k in ["stored_food_feed", "crops_food_feed", "seaweed_feed", "cellulosic_sugar_feed", "methane_scp_feed"])
        if kind == "to_humans":
            if any_feed_source:
                for nm, tot, key in [("feed", feed_tot, "feed"), ("biofuel", bio_tot, "biofuel")]:
                    charge = np.array(tc[key].kcals, float)
                    tol = 1e-6 * (1 + np.abs(charge))
                    bad = np.abs(tot - charge) > tol
                    V.resid("charge_equals_total", float(np.max(np.abs(tot - charge) / (1 + np.abs(charge)))))
                    V.check("charge_equals_total", not bad.any(), dict(idn, which=nm),
                            lambda: {"month": first_bad(bad), "allocated": float(tot[bad][0]), "charged": float(charge[bad][0])},
                            "feed/biofuel total differs from the amount charged for the round")
        else:
            for nm, tot, key in [("feed", feed_tot, "max_feed_that_could_be_used"), ("biofuel", bio_tot, "max_biofuel_that_could_be_used")]:
                cap = np.array(tc[key].kcals, float)
                bad = tot > cap + 1e-6 * (1 + np.abs(cap))
                V.check("animal_round_ceiling", not bad.any(), dict(idn, which=nm),
                        lambda: {"month": first_bad(bad), "allocated": float(tot[bad][0]), "ceiling": float(cap[bad][0])},
                        "feed/biofuel exceeds the demand ceiling in the feed-maximising round")
            d = np.diff(feed_tot)
            bad = d > 1e-6 * (1 + np.abs(feed_tot[:-1]))
            V.check("animal_round_monotone", not bad.any(), idn,
                    lambda: {"month": first_bad(bad) + 1, "previous": float(feed_tot[:-1][bad][0]), "this": float(feed_tot[1:][bad][0])},
                    "feed use rises from one month to the next in the feed-maximising round")


# =========================================================================== C03
def c03(trace, V):
    if not trace.rounds or trace.first is None:
        return
    humans = [r for r in trace.rounds if r["type"] == "to_humans" and "interp" in r]
    if not humans:
        return
    final = humans[-1]
    ci = trace.first["inputs"]
    # the configured minimum share comes from the caller's options (numeric override, else the share the
    # documented shut-off value implies), not from what the dispatcher made of it
    opts = trace.spec.get("options", {})
    if "MINIMUM_PERCENT_FED_BEFORE_NONHUMAN_CONSUMPTION_ALLOWED" in opts:
        T = float(opts["MINIMUM_PERCENT_FED_BEFORE_NONHUMAN_CONSUMPTION_ALLOWED"])
    else:
        T = 10.0 if str(opts.get("shutoff", "")).endswith("after_10_percent_fed") else 100.0
    T_used = float(ci["MINIMUM_PERCENT_FED_BEFORE_NONHUMAN_CONSUMPTION_ALLOWED"])
    V.check("threshold_as_configured", abs(T_used - T) <= 1e-12 * (1 + abs(T)), {},
            {"configured": T, "used": T_used, "shutoff": opts.get("shutoff")},
            "the minimum share the run works with is not the configured one")
    eps = max(0.1, 1e-3 * T)
    N = ci["NMONTHS"]
    three = len(trace.rounds) >= 3 and trace.rounds[0]["type"] == "to_humans" and len(humans) >= 2
    p_final = final["interp"]["percent_people_fed"]
    p1 = humans[0]["interp"]["percent_people_fed"] if three else None
    need = final["consts"]["BILLION_KCALS_NEEDED"]
    K = final["consts"]["SEAWEED_KCALS"]
    idn = {"three_rounds": three}

    def totals(rec):
        x = rec["vars"]
        f = x["stored_food_feed"] + x["crops_food_feed"] + x["seaweed_feed"] * K + x["cellulosic_sugar_feed"] + x["methane_scp_feed"]
        b = x["stored_food_biofuel"] + x["crops_food_biofuel"] + x["seaweed_biofuel"] * K + x["cellulosic_sugar_biofuel"] + x["methane_scp_biofuel"]
        return f, b

    # demand schedule model (from the option table; independent of FeedAndBiofuels)
    fs, bs = int(ci["DELAY"]["FEED_SHUTOFF_MONTHS"]), int(ci["DELAY"]["BIOFUEL_SHUTOFF_MONTHS"])
    fd = np.array([ci["FEED_KCALS"] / 12 * 4e6 / 1e9 if m < fs else 0.0 for m in range(N)])
    bd = np.array([ci["BIOFUEL_KCALS"] / 12 * 4e6 / 1e9 if m < bs else 0.0 for m in range(N)])
    nontrivial = bool(fd.any() or bd.any())
    trace.c03_nontrivial = nontrivial

    f3, b3 = totals(final)
    # mechanism tags that tell the recorded classes apart from anything new (DESIGN.md 9-j)
    bumped = any(bool((bp["out_feed"] > bp["feed"] + 1e-9).any() or (bp["out_biofuel"] > bp["biofuel"] + 1e-9).any()) for bp in trace.bump)
    mech = "feed_bumped_after_round2" if bumped else "no_bump"
    not_hurt = (not three) or p_final >= min(p1, T) - eps
    # clause 1: starving => essentially no human-edible food to feed/biofuel, and final >= round 1
    if p_final < T - eps:
        V.ev("starving_no_feed")
        worst = (f3 + b3) / need * 100
        bad = worst > 0.1
        if bad.any():
            V.fail("starving_no_feed", dict(idn, humans_keep_min_of_round1_and_threshold=bool(not_hurt), mechanism=mech,
                                            round1_reaches_threshold=bool(three and p1 >= T)), {
                "final_percent_fed": p_final, "threshold": T, "month": first_bad(bad),
                "feed_plus_biofuel_percent_of_monthly_need": float(worst[bad][0]), "max": float(worst.max())},
                "final result is below the minimum share, yet human-edible food goes to feed/biofuel")
        if three:
            V.check("final_not_below_round1", p_final >= p1 - eps, dict(idn, mechanism=mech, round1_reaches_threshold=bool(p1 >= T)),
                    {"final": p_final, "round1": p1, "threshold": T},
                    "final percent fed is lower than the no-feed round although below the minimum share")
        trace.probe("c03_starving")
    else:
        trace.probe("c03_fed")
    # clause 2: round 1 reaches the threshold => final does not fall below it
    if three and p1 >= T:
        V.check("final_reaches_threshold", p_final >= T - eps, dict(idn, mechanism=mech), {"final": p_final, "round1": p1, "threshold": T},
                "no-feed round reaches the minimum share but the final result falls below it")
    # clause 3: every round, every month: within demand, zero from the shut-off month
    for rec in trace.rounds:
        if "vars" not in rec:
            continue
        f, b = totals(rec)
        for nm, tot, dem, s in [("feed", f, fd, fs), ("biofuel", b, bd, bs)]:
            lim = dem * (1 + 1e-4) + 1e-6
            bad = tot > lim
            V.check("within_demand", not bad.any(), dict(idn, which=nm, round_type=rec["type"]),
                    lambda: {"month": first_bad(bad), "allocated": float(tot[bad][0]), "demand": float(dem[bad][0]), "round": rec["index"] + 1},
                    "feed/biofuel from human-edible food exceeds the demand schedule")
            late = tot[s:]
            V.check("zero_after_shutoff", bool((np.abs(late) <= 1e-6).all()) if len(late) else True,
                    dict(idn, which=nm, round_type=rec["type"]),
                    lambda: {"shutoff_month": s, "max_after": float(np.max(np.abs(late)))},
                    "feed/biofuel is not zero from the shut-off month onwards")
    # the model's own demand series must be the documented schedule
    V.check("within_demand", bool(np.allclose(trace.first["feed_demand"], fd, rtol=1e-12, atol=1e-12))
            and bool(np.allclose(trace.first["biofuels_demand"], bd, rtol=1e-12, atol=1e-12)), dict(idn, which="schedule"),
            lambda: {"model_feed": trace.first["feed_demand"][:4], "reference_feed": fd[:4]},
            "the demand schedule differs from annual/12 before the shut-off month and zero afterwards")


# =========================================================================== C05
KCAL_PER_KG = {"small": 1525.0, "medium": 3590.0, "large": 2750.0}
KG = {"small": 2.36, "medium": 24.6}


def per_head_table(ci):
    """Independent per-head yield table (billion kcals per head), from the documentation."""
    large_kg = float(ci.get("kg_meat_per_large_animal", 269.7))
    return {
        "chicken": float(ci["KG_MEAT_PER_CHICKEN"]) * KCAL_PER_KG["small"] / 1e9,
        "pig": float(ci["KG_MEAT_PER_PIG"]) * KCAL_PER_KG["medium"] / 1e9,
        "small": KG["small"] * KCAL_PER_KG["small"] / 1e9,
        "medium": KG["medium"] * KCAL_PER_KG["medium"] / 1e9,
        "large": large_kg * KCAL_PER_KG["large"] / 1e9,
    }


def herd_meat(herd, ci):
    tab = per_head_table(ci)
    n = len(herd["animals"][0]["slaughter"])
    tot = np.zeros(n)
    for a in herd["animals"]:
        if a["type"] == "chicken":
            k = tab["chicken"]
        elif a["type"] == "pig":
            k = tab["pig"]
        else:
            k = tab[a["size"]]
        tot += a["slaughter"] * k
    return tot * (1 - ci["WASTE_DISTRIBUTION"]["MEAT"] / 100.0)


def herd_milk(herd, ci):
    n = len(herd["animals"][0]["population"])
    pop = np.zeros(n)
    for a in herd["animals"]:
        if "milk" in a["type"]:
            pop += a["population"]
    if not ci["ADD_MILK"]:
        return np.zeros(n)
    return (pop * ci["MILK_YIELD_KG_PER_MILK_BEARING_ANIMAL_PER_YEAR"] / 12 * 610.0 / 1e9
            * (1 - ci["WASTE_DISTRIBUTION"]["MILK"] / 100.0) * (1 - ci["WASTE_RETAIL"] / 100.0))


def c05(trace, V):
    if trace.first is None:
        return
    ci = trace.first["inputs"]
    links = trace.herd_links
    # rounds in order: link k belongs to optimizer round k when all three rounds ran;
    # when round 2 was skipped there are links for rounds 1, (2 built but unused), 3
    rounds = trace.rounds
    for li, link in enumerate(links):
        if link["herd"] is None:
            continue
        herd = trace.herds[link["herd"]]
        nonempty = any(a["population"].max() > 0 for a in herd["animals"])
        want_meat = herd_meat(herd, ci)
        want_milk = herd_milk(herd, ci)
        is_round2 = (li == 1 and len(links) == 3)
        idn = {"link": li, "feed_round": bool(is_round2)}
        if not is_round2:
            tol = 1e-9 * (1 + np.abs(want_meat))
            bad = np.abs(link["meat"] - want_meat) > tol
            V.resid("meat_matches_herds", float(np.max(np.abs(link["meat"] - want_meat) / (1 + np.abs(want_meat)))))
            V.check("meat_matches_herds", not bad.any(), idn,
                    lambda: {"month": first_bad(bad), "offered": float(link["meat"][bad][0]), "from_herds": float(want_meat[bad][0])},
                    "meat offered to the optimiser differs from slaughter counts x per-head yield x (1 - distribution waste)")
        # totals in every round (the feed-maximising round re-times slaughter)
        V.check("meat_total_matches_herds", abs(link["meat_sum"] - want_meat.sum()) <= 1e-9 * (1 + abs(want_meat.sum())), idn,
                {"offered_total": link["meat_sum"], "from_herds_total": float(want_meat.sum())},
                "total meat offered differs from the herd simulation's total")
        tol = 1e-9 * (1 + np.abs(want_milk))
        bad = np.abs(link["milk"] - want_milk) > tol
        V.resid("milk_matches_herds", float(np.max(np.abs(link["milk"] - want_milk) / (1 + np.abs(want_milk)))))
        V.check("milk_matches_herds", not bad.any(), idn,
                lambda: {"month": first_bad(bad), "offered": float(link["milk"][bad][0]), "from_herds": float(want_milk[bad][0])},
                "milk offered differs from milking-herd size x yield x (1 - wastes)")
        # herds never eat more grass / feed than available
        bad = herd["grass_used"] > herd["grass_in"] + 1e-9 * (1 + np.abs(herd["grass_in"]))
        V.check("grass_within_supply", not bad.any(), idn,
                lambda: {"month": first_bad(bad), "used": float(herd["grass_used"][bad][0]), "available": float(herd["grass_in"][bad][0])},
                "herds ate more grass than available")
        if nonempty:
            trace.probe("c05_nonempty_herd")
    # what each optimizer round was actually given must be what the paired herd produced
    pairs = []
    if len(rounds) == 3 and len(links) == 3:
        pairs = [(0, 0, False), (1, 1, True), (2, 2, False)]
    elif len(rounds) == 1 and len(links) >= 1:
        pairs = [(0, len(links) - 1, False)]
    elif len(rounds) == 2 and len(links) >= 2:
        pairs = [(0, 0, False), (1, len(links) - 1, False)]
    for ri, li, is2 in pairs:
        rec, link = rounds[ri], links[li]
        tc = rec["time_consts"]
        given_meat = np.array(tc["each_month_meat_slaughtered"].kcals, float)
        given_milk = np.array(tc["milk_kcals"], float)
        idn = {"round": ri + 1, "round_type": rec["type"]}
        if link["herd"] is None:
            continue
        herd = trace.herds[link["herd"]]
        want_meat, want_milk = herd_meat(herd, ci), herd_milk(herd, ci)
        if is2:
            V.check("round_given_herd_output", abs(given_meat.sum() - want_meat.sum()) <= 1e-6 * (1 + want_meat.sum()), dict(idn, what="meat_total"),
                    {"given_total": float(given_meat.sum()), "from_herds_total": float(want_meat.sum())},
                    "total meat given to the feed-maximising round differs from the herd simulation's total")
        else:
            bad = np.abs(given_meat - want_meat) > 1e-9 * (1 + np.abs(want_meat))
            V.check("round_given_herd_output", not bad.any(), dict(idn, what="meat"),
                    lambda: {"month": first_bad(bad), "given": float(given_meat[bad][0]), "from_herds": float(want_meat[bad][0])},
                    "meat series handed to the optimiser is not the paired herd run's output")
        bad = np.abs(given_milk - want_milk) > 1e-9 * (1 + np.abs(want_milk))
        V.check("round_given_herd_output", not bad.any(), dict(idn, what="milk"),
                lambda: {"month": first_bad(bad), "given": float(given_milk[bad][0]), "from_herds": float(want_milk[bad][0])},
                "milk series handed to the optimiser is not the paired herd run's output")
        if rec["type"] == "to_humans":
            charge = np.array(tc["feed"].kcals, float)
            bad = charge < herd["feed_used"] - 1e-6
            V.check("charge_covers_herd_feed", not bad.any(), idn,
                    lambda: {"month": first_bad(bad), "charged": float(charge[bad][0]), "herds_ate": float(herd["feed_used"][bad][0])},
                    "feed charged against human-edible food is less than the feed the herds ate")
            if not charge.any():
                V.check("zero_charge_zero_feed", not herd["feed_used"].any() and not herd["feed_in"].any(), idn,
                        {"herd_feed_in_total": float(herd["feed_in"].sum()), "herd_feed_used_total": float(herd["feed_used"].sum())},
                        "a round that charges no feed ran its herds on feed")
            if charge.any():
                trace.probe("c05_nonzero_charge")


# =========================================================================== C18
ORDER = ["fish", "meat", "dairy", "greenhouse", "outdoor_crops", "stored_food", "methane_scp", "cellulosic_sugar", "seaweed"]


def c18(trace, V):
    for mn in trace.min_needs:
        T, kd, p1 = mn["threshold"], mn["kcals_daily"], mn["round1_percent"]
        target = min(p1, T) / 100.0 * kd
        res, r1 = mn["result"], mn["round1"]
        tot = sum(res[k] for k in ORDER)
        idn = {"helper": "min_needs"}
        # solver noise: slightly negative round-1 consumptions (e.g. -3e-8 kcal/person/day of stored food) are
        # passed through by the greedy fill after the ceiling is reached; exactly that amount is forgiven
        neg_noise = sum(np.abs(np.minimum(0.0, r1[k])) for k in ORDER)
        bad = np.abs(tot - target) > 1e-9 * (1 + target) + neg_noise
        V.resid("min_needs_sum", float(np.max((np.abs(tot - target) - neg_noise) / (1 + target))))
        V.check("min_needs_sum", not bad.any(), idn,
                lambda: {"month": first_bad(bad), "sum": float(tot[bad][0]), "target": target, "round1": p1, "threshold": T},
                "minimum human consumption does not add up to min(no-feed result, threshold)")
        for k in ORDER:
            bad = res[k] > r1[k] + 1e-9 * (1 + np.abs(r1[k]))
            V.check("min_needs_bounded_by_round1", not bad.any(), dict(idn, food=k),
                    lambda: {"month": first_bad(bad), "min_consumption": float(res[k][bad][0]), "round1": float(r1[k][bad][0])},
                    "minimum consumption of a food exceeds what people ate of it in the no-feed round")
        # priority: food k non-zero only if the foods before it are used up (== their round-1 level)
        for i, k in enumerate(ORDER):
            # "non-zero" beyond the negative solver noise of that month (a negative higher-priority food hands
            # its tiny amount back to the ceiling, and the next positive food picks it up)
            nz = res[k] > 1e-9 + neg_noise
            for j in range(i):
                kb = ORDER[j]
                notfull = res[kb] < r1[kb] - 1e-9 * (1 + np.abs(r1[kb]))
                bad = nz & notfull
                V.check("min_needs_priority", not bad.any(), dict(idn, food=k, before=kb),
                        lambda: {"month": first_bad(bad)}, "a lower-priority food is used before a higher-priority one is exhausted")
        V.check("min_needs_priority", mn["result_order"] == ORDER, dict(idn, what="order"), {"order": mn["result_order"]})
        trace.probe("c18_min_needs")
    for rt in trace.retime:
        if rt["result"] is None:
            continue
        a1, a2, out = rt["round1"], rt["round2"], rt["result"]
        idn = {"helper": "retime"}
        V.resid("retime_total", abs(out.sum() - a2.sum()) / (1 + abs(a2.sum())))
        V.check("retime_total", abs(out.sum() - a2.sum()) <= 1e-9 * (1 + abs(a2.sum())), idn,
                {"before": float(a2.sum()), "after": float(out.sum())}, "re-timing of meat changed the total")
        bad = out < -1e-9
        V.check("retime_non_negative", not bad.any(), idn, lambda: {"month": first_bad(bad), "value": float(out[bad][0])})
        bad = out < a1 - 1e-9 * (1 + np.abs(a1))
        V.check("retime_at_least_round1", not bad.any(), idn,
                lambda: {"month": first_bad(bad), "retimed": float(out[bad][0]), "round1": float(a1[bad][0])},
                "re-timed meat is below the no-feed level in some month")
        trace.probe("c18_retime")
    for bp in trace.bump:
        idn = {"helper": "bump"}
        for nm, a, o, mx in [("biofuel", bp["biofuel"], bp["out_biofuel"], bp["max_biofuel"]), ("feed", bp["feed"], bp["out_feed"], bp["max_feed"])]:
            bad = o < a - 1e-12 * (1 + np.abs(a))
            V.check("bump_never_lowers", not bad.any(), dict(idn, which=nm),
                    lambda: {"month": first_bad(bad), "in": float(a[bad][0]), "out": float(o[bad][0])},
                    "final adjustment lowered feed/biofuel")
            lim = np.maximum(a, mx) * (1 + 1e-9) + 1e-6
            bad = o > lim
            V.resid("bump_within_demand", float(np.max(o - np.maximum(a, mx))))
            V.check("bump_within_demand", not bad.any(), dict(idn, which=nm),
                    lambda: {"month": first_bad(bad), "out": float(o[bad][0]), "demand": float(mx[bad][0]), "in": float(a[bad][0])},
                    "final adjustment raised feed/biofuel above its demand schedule")
        trace.probe("c18_bump")
        # what every optimiser built after the adjustment is handed must be the adjusted quantities (so that "never
        # lowers" is still true of what the final round actually charges)
        for rec in trace.rounds[bp.get("rounds_before", len(trace.rounds)):]:
            for nm, o in (("biofuel", bp["out_biofuel"]), ("feed", bp["out_feed"])):
                try:
                    got = np.array(rec["time_consts"][nm].kcals, float)
                except (KeyError, AttributeError):
                    continue
                same = got.shape == o.shape and bool((got == o).all())
                V.check("bump_reaches_optimiser", same, dict(idn, which=nm),
                        lambda: {"month": first_bad(got != o) if got.shape == o.shape else None, "round_record": rec["index"] + 1,
                                 "adjusted": o[:3], "handed_to_optimiser": got[:3]},
                        "the feed/biofuel handed to the final round's optimiser is not what the final adjustment produced")


# =========================================================================== C02
TOL_FORMULATION = 5e-5
# CBC at its default tolerances (as the code calls it) stops up to 1.4e-4 short of the optimum of the very LP it was
# given (WOR + seaweed, 84 months: 44.319744 vs 44.325901; HiGHS at 1e-7..1e-10 and CBC at primalT/dualT 1e-9 all give
# 44.325901). That is the accuracy of the dependency, not of the formulation; one order of head-room.
TOL_SOLVER = 1e-3


def c02(trace, V):
    from . import reflp

    for rec in trace.rounds:
        if rec.get("status") != 1 or "optimum" not in rec:
            continue
        kind = rec["type"]
        code = rec["optimum"]
        idn = {"round_type": kind, "store": bool(rec["consts"]["STORE_FOOD_BETWEEN_YEARS"])}
        st_c, ref_c = reflp.build_and_solve(rec, meat="code")
        if st_c.startswith("error"):
            trace.probe("c02_reference_solver_failed")  # HiGHS gave up (numerical difficulties): no verdict
            continue
        if st_c != "optimal":
            # the reference with the code's own meat rule must be feasible whenever the code's LP was
            V.check("optimum_is_true_optimum", False, dict(idn, cause="reference_" + st_c.split(":")[0]),
                    {"code_optimum": code, "reference_status": st_c, "round": rec["index"] + 1},
                    "reference LP (code's meat rule) is not solvable where the code reports an optimum")
            continue
        tol = 5e-5 * max(1.0, abs(ref_c))
        own = None
        om = rec.get("own_model")
        if om is not None:
            # the code's OWN first-stage LP (exactly what it handed to the solver), solved by HiGHS: separates
            # "the formulation deviates" from "CBC stopped a little short of the optimum of a right model"
            from . import lpsolve

            st_o, val_o, _x = lpsolve.solve_matrix(om["c"], om["A_ub"], om["b_ub"], om["A_eq"], om["b_eq"], om["bounds"],
                                                   maximize=om["maximize"])
            if st_o == "optimal":
                own = val_o + om["c0"]
            else:
                trace.probe("c02_own_model_not_solved_by_highs")
        if own is not None and abs(own - ref_c) > TOL_FORMULATION * max(1.0, abs(ref_c)):
            # confirm before alarming: both LPs once more at feasibility tolerances of 1e-9 (two solves at 1e-7 of
            # equivalent LPs with differently scaled rows differ by up to ~1e-5 relative on their own)
            trace.probe("c02_formulation_confirmation_run")
            with lpsolve.tolerance(1e-9):
                st_o2, val_o2, _x = lpsolve.solve_matrix(om["c"], om["A_ub"], om["b_ub"], om["A_eq"], om["b_eq"], om["bounds"],
                                                         maximize=om["maximize"])
                st_c2, ref_c2 = reflp.build_and_solve(rec, meat="code")
            if st_o2 == "optimal" and st_c2 == "optimal":
                own, ref_c = val_o2 + om["c0"], ref_c2
        if own is not None:
            V.resid("formulation", abs(own - ref_c) / max(1.0, abs(ref_c)))
            V.resid("solver_accuracy", abs(code - own) / max(1.0, abs(own)))
            ok = V.check("optimum_is_true_optimum", abs(own - ref_c) <= TOL_FORMULATION * max(1.0, abs(ref_c)),
                         dict(idn, cause="formulation"),
                         {"code_optimum": code, "own_model_optimum": own, "reference_optimum": ref_c,
                          "relative": (own - ref_c) / max(1.0, abs(ref_c)), "round": rec["index"] + 1},
                         "the optimum of the LP the code hands to its solver differs from the independently formulated LP (same meat rule)")
            if abs(code - own) > 5e-5 * max(1.0, abs(own)):
                trace.probe("c02_cbc_short_of_own_optimum_by_more_than_5e-5")
            ok = V.check("optimum_is_true_optimum", abs(code - own) <= TOL_SOLVER * max(1.0, abs(own)),
                         dict(idn, cause="solver_accuracy"),
                         {"code_optimum": code, "own_model_optimum": own, "relative": (code - own) / max(1.0, abs(own)),
                          "round": rec["index"] + 1},
                         "the reported figure is not the optimum of the code's own LP to within 0.1 %") and ok
        else:
            V.resid("optimum_is_true_optimum", abs(code - ref_c) / max(1.0, abs(ref_c)))
            ok = V.check("optimum_is_true_optimum", abs(code - ref_c) <= TOL_SOLVER * max(1.0, abs(ref_c)), dict(idn, cause="formulation"),
                         {"code_optimum": code, "reference_optimum": ref_c, "relative": (code - ref_c) / max(1.0, abs(ref_c)),
                          "round": rec["index"] + 1},
                         "reported optimum differs from the independently formulated LP (same meat rule)")
        if not ok:
            continue
        uses_meat_store = bool(rec["consts"]["ADD_MEAT"]) and idn["store"]
        if not uses_meat_store:
            continue
        st_p, ref_p = reflp.build_and_solve(rec, meat="phys")
        trace.probe("c02_phys_solved")
        if st_p.startswith("error"):
            trace.probe("c02_reference_solver_failed")
            continue
        if st_p != "optimal":
            V.check("optimum_physically_achievable", False, dict(idn, cause="meat_rule", how="physical_" + st_p.split(":")[0]),
                    {"code_optimum": code, "physical_reference_status": st_p, "round": rec["index"] + 1},
                    "with the physical meat ledger the round's problem is not feasible (pinned meat is not physical)")
            continue
        V.resid("optimum_physically_achievable", (code - ref_p) / max(1.0, abs(ref_p)))
        V.check("optimum_physically_achievable", code <= ref_p + tol, dict(idn, cause="meat_rule", how="exceeds_physical_optimum"),
                {"code_optimum": code, "physical_optimum": ref_p, "relative": (code - ref_p) / max(1.0, abs(ref_p)),
                 "round": rec["index"] + 1},
                "reported optimum exceeds what is achievable when meat cannot be eaten before it is slaughtered")


# =========================================================================== C08 (engine-P slice)
def supply_series(tc, co):
    """(N, copies of the supply series of a (time_consts, consts) pair) - what C08's engine-P slice compares."""
    N = co["NMONTHS"]
    return N, {
        "outdoor_crops": np.array(tc["outdoor_crops"].production.kcals, float),
        "greenhouse_crops": np.array(tc["greenhouse_crops"].kcals, float),
        "fish": np.array(tc["fish"].to_humans.kcals, float),
        "methane_scp": np.array(tc["methane_scp"].kcals, float),
        "cellulosic_sugar": np.array(tc["cellulosic_sugar"].kcals, float),
        "seaweed_built_area": np.array(tc["built_area"], float)[:N],
        "seaweed_growth": np.array(tc["growth_rates_monthly"], float)[:N],
        "initial_stored_food": np.atleast_1d(np.array(co["stored_food"].initial_available.kcals, float)),
    }


def c09_rounds(trace, V):
    """C09, engine-P slice: the monthly crop quantities every round's optimiser is handed are the ones the parameter
    computation produced - nothing rounds, truncates or otherwise re-quantises them on the way (incl. on retry paths)."""
    snap = getattr(trace, "first_series", None)
    if snap is None or not trace.rounds:
        return
    first = snap[1]
    for rec in trace.rounds:
        _N, cur = supply_series(rec["time_consts"], rec["consts"])
        for name in ("outdoor_crops", "greenhouse_crops"):
            arr, ref = cur[name], first[name]
            same = arr.shape == ref.shape and bool((arr == ref).all())

            def lattice():
                if arr.shape != ref.shape:
                    return None
                for d in range(0, 7):
                    if np.allclose(arr, np.round(ref, d), rtol=0, atol=1e-12) and not np.allclose(ref, np.round(ref, d), rtol=0, atol=1e-12):
                        return "rounded_to_%d_decimals" % d
                if np.allclose(arr, np.floor(ref), rtol=0, atol=1e-12) and not np.allclose(ref, np.floor(ref), rtol=0, atol=1e-12):
                    return "truncated"
                return "other"

            V.check("no_quantisation", same, {"series": name, "where": "between_computation_and_optimiser", "round_type": rec["type"]},
                    lambda: {"round_record": rec["index"] + 1, "how": lattice(),
                             "month": first_bad(arr != ref) if arr.shape == ref.shape else None,
                             "as_computed": ref[:3], "handed_to_optimiser": arr[:3]},
                    "a monthly crop quantity was changed (rounded / truncated) between its computation and the optimiser")
    trace.probe("c09_rounds_compared", len(trace.rounds))


def c08_rounds(trace, V):
    """The supply series handed to the optimiser of rounds 2 and 3 must still be the round-1
    series (only meat, milk, feed and biofuel may differ between rounds), and every series of
    every round has exactly N finite, non-negative values."""
    if not trace.rounds:
        return

    def series(rec):
        return supply_series(rec["time_consts"], rec["consts"])

    N0, first = series(trace.rounds[0])
    snap = getattr(trace, "first_series", None)
    if snap is not None:
        # the series as they were when compute_parameters_first_round returned them (copied at that instant): what
        # the optimiser of EVERY round is handed must still be exactly that
        first = snap[1]
        for name, arr in series(trace.rounds[0])[1].items():
            same = arr.shape == first[name].shape and bool((arr == first[name]).all())
            V.check("rounds_keep_supplies", same, {"series": name, "round_type": trace.rounds[0]["type"], "vs": "as_computed"},
                    lambda: {"round": 1, "month": first_bad(arr != first[name]) if arr.shape == first[name].shape else None,
                             "as_computed": first[name][:3], "handed_to_optimiser": arr[:3]},
                    "a supply series handed to the round-1 optimiser differs from what the parameter computation returned")
    for rec in trace.rounds:
        N, cur = series(rec)
        for name, arr in cur.items():
            ok = (name == "initial_stored_food" or len(arr) == N) and bool(np.isfinite(arr).all()) and bool((arr >= 0).all())
            V.check("rounds_shape", ok, {"series": name, "round_type": rec["type"]},
                    lambda: {"len": len(arr), "N": N, "min": float(np.nanmin(arr)) if len(arr) else None, "round": rec["index"] + 1},
                    "a supply series handed to the optimiser does not have N finite non-negative values")
            if rec is trace.rounds[0]:
                continue
            same = arr.shape == first[name].shape and bool((arr == first[name]).all())
            V.check("rounds_keep_supplies", same, {"series": name, "round_type": rec["type"]},
                    lambda: {"round": rec["index"] + 1, "month": first_bad(arr != first[name]) if arr.shape == first[name].shape else None,
                             "round1": first[name][:3], "this_round": arr[:3]},
                    "a supply series (other than meat, milk, feed, biofuel) differs between round 1 and a later round")
    trace.probe("c08_rounds_compared", max(0, len(trace.rounds) - 1))
