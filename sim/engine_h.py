"""Engine H: the monthly herd state machine under a simulated environment.

System under test (real code, real tables):
    animal_populations.main(country_code, available_feed, available_grass, scenario,
                            constants_inputs, remove_first_month=0, kcals_per_head_meat_dict)

The simulator plays the environment of the monthly loop: for every month it decides how much
feed and grass is delivered. A base level derived from the herd's own month-0 requirement
(k x need, k seeded) is disturbed by a seeded program of delivery faults (lost, half, double,
burst, delayed by k months, shifted, cut off from month s, restored later). The decided
series are stored explicitly in the spec (replay does not re-derive them) and materialised as
the `Food` arguments `main` expects. Countries (164 + SWT alias + world aggregate), the three
breeding strategies, horizons 24..120, both serving orders (per-head meat table as the
pipeline builds it / None = fallback) and optional head-count overrides (x0.1..10, zeroed)
vary.

Observation points: the lists returned by main (month-zero entries kept) and a run-time
wrapper around AnimalSpecies.feed_the_species recording every call.

The tables are read a second time by this module's own csv readers (digestion type, size
class, hours per head, LSU, target fraction, regional factors): the oracles in checks/c06.py
and checks/c07.py use those, not the attributes the model derived from them.
"""

import csv
import hashlib
import os

import numpy as np

from . import core, world

STRATEGIES = ["reduced", "baseline", "feed_only_ruminants"]
# DESIGN 9-f: key.strip("_start") mangles these three override keys (and the stray column
# then trips an assertion in create_animal_objects) - not this engine's subject.
OVERRIDE_BROKEN = ("asses", "rabbit", "turkey")
DAIRY_PAIRS = {"milk_sheep": "meat_sheep", "milk_cattle": "meat_cattle", "milk_goat": "meat_goat",
               "milk_camel": "meat_camel", "milk_buffalo": "meat_buffalo"}
ONE_LSU = ((29000 / 12) / 4.187) * 1000 / 1e9  # billion kcal net energy per livestock unit per month
EFF_GRASS, EFF_FEED = 0.6, 0.8  # property statement: digestion efficiencies 0.6 / 0.8
UNITS = ("billion kcals each month", "thousand tons each month", "thousand tons each month")
SPECIAL = ["IND", "SWT", "WOR", "MKD", "NZL", "USA", "CHN", "BRA", "MNG", "LUX", "BRB", "SGP", "ISL", "KWT",
           "ETH", "PAK", "SOM", "NLD", "AUS", "ARG"]
HORIZONS = [24, 24, 25, 30, 36, 48, 60, 72, 96, 120, 120]
OP_KINDS = ["lost", "half", "double", "burst", "delay", "shift", "cutoff", "cutoff_restore"]

_T = {}


# --------------------------------------------------------------------------- own table readers
def _read(path, key):
    with open(path, newline="") as f:
        rd = csv.reader(f)
        head = next(rd)
        first = {}
        for i, c in enumerate(head):
            first.setdefault(c, i)  # species_attributes.csv repeats the column name "source"
        rows = {}
        for r in rd:
            if not r:
                continue
            rows.setdefault(r[first[key]], {c: r[i] for c, i in first.items()})
    return head, rows


def tables():
    if _T:
        return _T
    d = os.path.join(core.REPO_DIR, "data", "no_food_trade", "animal_feed_data")
    head, rows = _read(os.path.join(d, "FAOSTAT_head_and_slaughter.csv"), "iso3")
    _T["head_cols"] = [c for c in head if c.endswith("_head")]
    _T["types"] = [c[: -len("_head")] for c in _T["head_cols"]]
    _T["stock"] = {k: {c: (float(v) if v != "" else float("nan")) for c, v in r.items() if c not in ("iso3", "country")}
                   for k, r in rows.items()}  # empty cells (e.g. SGP ruminants) read as NaN, as pandas does
    _, at = _read(os.path.join(d, "species_attributes.csv"), "animal")
    _T["attrs"] = {
        k: {"digestion": r["digestion type"], "size": r["animal size"], "LSU": float(r["LSU"]),
            "afc": float(r["approximate feed conversion"]), "hours": float(r["animal_slaughter_hours"]),
            "gestation": float(r["gestation"])}
        for k, r in at.items()
    }
    opts = {}
    with open(os.path.join(d, "species_options.csv"), newline="") as f:
        for r in csv.DictReader(f):
            opts[(r["scenario"], r["animal"])] = {k: float(v) for k, v in r.items() if k not in ("scenario", "animal")}
    _T["options"] = opts
    _, reg = _read(os.path.join(d, "regional_conversion_factors.csv"), "animal")
    _T["regional"] = {k: {c: float(v) for c, v in r.items() if c != "animal"} for k, r in reg.items()}
    _, cm = _read(os.path.join(d, "FAO_country_region_mappings.csv"), "alpha3")
    _T["region_of"] = {k: r["FAO-region-EK"] for k, r in cm.items()}
    _, cr = _read(os.path.join(core.REPO_DIR, "data", "no_food_trade", "computer_readable_combined.csv"), "iso3")
    _T["country_rows"] = cr
    _T["codes"] = list(cr.keys())
    return _T


def table_code(code):
    return "SWZ" if code == "SWT" else code


def species_of(animal_type):
    return animal_type.replace("milk_", "").replace("meat_", "")


def heads_of(code, overrides=None):
    """Head counts the model starts from: table row (+ overrides), zero herds and India's
    beef herd left out. Ordered as the table columns."""
    t = tables()
    row = t["stock"][table_code(code)]
    out = {}
    for typ in t["types"]:
        v = row[typ + "_head"]
        if overrides and typ in overrides:
            v = float(overrides[typ])
        if v > 0 and not (typ == "meat_cattle" and table_code(code) == "IND"):
            out[typ] = v
    return out


def lsu_factor(code, animal_type):
    t = tables()
    region = t["region_of"].get(table_code(code), "Other")
    return t["regional"][species_of(animal_type)][region]


def ne_per_head(code, animal_type, regional=True):
    """Net energy one head needs per month (billion kcal): LSU x one-LSU energy x regional factor."""
    f = lsu_factor(code, animal_type) if regional else 1.0
    return tables()["attrs"][animal_type]["LSU"] * ONE_LSU * f


def month0_need(code, overrides=None):
    """(net energy all herds need, net energy the ruminant herds need) in month 0."""
    t = tables()
    tot = rum = 0.0
    for typ, n in heads_of(code, overrides).items():
        e = ne_per_head(code, typ) * n
        tot += e
        if t["attrs"][typ]["digestion"] == "ruminant":
            rum += e
    return tot, rum


def per_head_table(code, kg_large=269.7):
    """kcals_per_head_meat_dict exactly as MeatAndDairy.initialize_this_country_animal_kcals
    builds it from the country row (world aggregate: the constants of the global scenario)."""
    if code == "WOR":
        kg_chicken, kg_pig = 1.65, 86.0
    else:
        row = tables()["country_rows"][code]
        kg_chicken, kg_pig = float(row["kg_meat_per_chicken"]), float(row["kg_meat_per_pig"])
    return {
        "KCALS_PER_CHICKEN": kg_chicken * 1525 / 1e9,
        "KCALS_PER_PIG": 3590 * kg_pig / 1e9,
        "KCALS_PER_SMALL_ANIMAL": 1525 * 2.36 / 1e9,
        "KCALS_PER_MEDIUM_ANIMAL": 3590 * 24.6 / 1e9,
        "KCALS_PER_LARGE_ANIMAL": 2750 * kg_large / 1e9,
    }


def per_head_kcal(table, animal_type):
    a = tables()["attrs"][animal_type]
    if animal_type == "chicken":
        return table["KCALS_PER_CHICKEN"]
    if animal_type == "pig":
        return table["KCALS_PER_PIG"]
    return table["KCALS_PER_%s_ANIMAL" % a["size"].upper()]


# --------------------------------------------------------------------------- workload
def pick_code(rng):
    t = tables()
    if rng.chance(0.3):
        return rng.pick([c for c in SPECIAL if c == "WOR" or c in t["country_rows"]])
    return rng.pick(t["codes"])


def _base_shape(fr, N, level):
    shape = fr.pick(["constant", "constant", "noisy", "ramp_down", "ramp_up", "seasonal", "walk"])
    if shape == "constant":
        s = [level] * N
    elif shape == "noisy":
        s = [level * fr.uniform(0.5, 1.5) for _ in range(N)]
    elif shape == "ramp_down":
        s = [level * (1 - m / N) for m in range(N)]
    elif shape == "ramp_up":
        s = [level * (m + 1) / N for m in range(N)]
    elif shape == "seasonal":
        ph = fr.randrange(12)
        s = [level * max(0.0, 1 + np.sin(2 * np.pi * (m + ph) / 12.0)) for m in range(N)]
    else:
        s, x = [], level
        for _ in range(N):
            s.append(x)
            x = max(0.0, x * fr.uniform(0.8, 1.2))
    return shape, [float(x) for x in s]


def _level(fr):
    regime = fr.pick(["zero", "partial", "partial", "partial", "near_one", "ample", "arbitrary", "arbitrary"])
    if regime == "zero":
        k = 0.0
    elif regime == "partial":
        k = fr.uniform(0.02, 0.98)
    elif regime == "near_one":
        k = fr.pick([0.5, 0.75, 0.999999, 1.0, 1.000001, 1.25])
    elif regime == "ample":
        k = fr.uniform(1.2, 3.0)
    else:
        k = fr.uniform(0.0, 3.0)
    return regime, k


def _ops(fr, N):
    ops = []
    for _ in range(fr.pick([0, 0, 1, 1, 2, 3, 4, 6])):
        kind = fr.pick(OP_KINDS)
        op = {"kind": kind, "target": fr.pick(["feed", "grass", "both"]), "at": fr.randrange(N)}
        if kind in ("lost", "half", "double", "burst"):
            op["len"] = fr.pick([1, 1, 1, 2, 3, 6])
        if kind == "burst":
            op["factor"] = fr.pick([5, 10, 20, 100])
        if kind in ("delay", "shift"):
            op["k"] = fr.pick([1, 1, 2, 3, 6, 12])
        if kind == "cutoff_restore":
            op["until"] = op["at"] + 1 + fr.randrange(max(1, N - op["at"]))
        ops.append(op)
    return ops


def apply_ops(series, ops, target):
    s = list(series)
    N = len(s)
    for op in ops:
        if op["target"] not in (target, "both"):
            continue
        a, kind = op["at"], op["kind"]
        if a >= N:
            continue
        if kind in ("lost", "half", "double", "burst"):
            f = {"lost": 0.0, "half": 0.5, "double": 2.0}.get(kind, float(op.get("factor", 1)))
            for m in range(a, min(N, a + op["len"])):
                s[m] = s[m] * f
        elif kind == "delay":  # the delivery of month a arrives k months late (or never, past the horizon)
            if a + op["k"] < N:
                s[a + op["k"]] += s[a]
            s[a] = 0.0
        elif kind == "shift":  # from month a on every delivery is k months late
            k = op["k"]
            tail = s[a:]
            s[a:] = ([0.0] * k + tail)[: len(tail)]
        elif kind == "cutoff":
            for m in range(a, N):
                s[m] = 0.0
        elif kind == "cutoff_restore":
            for m in range(a, min(N, op["until"])):
                s[m] = 0.0
    return [float(x) for x in s]


def random_run(wl, fr, profile):
    t = tables()
    code = pick_code(wl)
    if profile.get("country") and wl.chance(0.5):
        code = profile["country"]
    N = wl.pick(HORIZONS) if wl.chance(0.7) else wl.randrange(24, 121)
    strategy = wl.pick(profile["strategies"])
    order = wl.pick(profile["orders"])
    heads = {}
    present = [x for x in heads_of(code) if x not in OVERRIDE_BROKEN]
    if code != "SWT" and present and wl.chance(profile["override_p"]):
        for typ in wl.sample(present, min(len(present), wl.pick([1, 1, 2, 3]))):
            cur = t["stock"][table_code(code)][typ + "_head"]
            if wl.chance(0.25):
                heads[typ] = 0.0
            else:
                heads[typ] = float(max(1, round(cur * 10 ** wl.uniform(-1, 1))))
    tot, rum = month0_need(code, heads)
    rg, kg = _level(fr)
    rf, kf = _level(fr)
    grass_level = kg * rum / EFF_GRASS
    from_feed = (tot - rum) + max(0.0, rum - EFF_GRASS * grass_level)
    if from_feed <= 0:
        from_feed = tot
    feed_level = kf * from_feed / EFF_FEED
    gshape, gbase = _base_shape(fr, N, grass_level)
    fshape, fbase = _base_shape(fr, N, feed_level)
    ops = _ops(fr, N) if fr.chance(profile["fault_p"]) else []
    return {
        "country": code, "strategy": strategy, "months": N, "order": order, "heads": heads,
        "program": {"grass": {"regime": rg, "k": kg, "shape": gshape}, "feed": {"regime": rf, "k": kf, "shape": fshape},
                    "ops": ops, "feed_base": fbase, "grass_base": gbase},
        "feed": apply_ops(fbase, ops, "feed"), "grass": apply_ops(gbase, ops, "grass"),
    }


def generate(seed, prop, h, runs):
    rng = core.Rng(seed, prop, h)
    wl, fr = rng.sub("workload"), rng.sub("faults")
    profile = {
        "strategies": wl.pick([STRATEGIES, STRATEGIES, ["reduced"], ["baseline"], ["feed_only_ruminants"]]),
        "orders": wl.pick([["table", "fallback"], ["table", "fallback"], ["table"], ["fallback"]]),
        "override_p": wl.pick([0.0, 0.2, 0.5]),
        "fault_p": wl.pick([0.0, 0.6, 0.6, 1.0]),
        "country": pick_code(wl) if wl.chance(0.3) else None,
    }
    spec = {"h": h, "prop": prop, "runs": [random_run(wl, fr, profile) for _ in range(runs)]}
    rf = rng.sub("readfault")
    if rf.chance(0.15) and len(spec["runs"]) > 1:
        # fail-stop I/O error on one of the five table reads of one herd run (not the first run: state an earlier run
        # left behind is what a "carry on regardless" reader would fall back to). Such a history runs without the
        # in-process table cache of the harness, so that every run really reads its tables.
        spec["read_fault"] = {"run": 1 + rf.randrange(len(spec["runs"]) - 1), "at": rf.randrange(5),
                              "kind": rf.pick(["eio", "enoent", "parse"])}
    return spec


# --------------------------------------------------------------------------- execution
class FeedRecorder:
    """Run-time wrapper around AnimalSpecies.feed_the_species: one record per call."""

    FIELDS = ("type", "ruminant_arg", "g0", "f0", "R", "herd", "fed_before", "g1", "f1", "B1", "fed")

    def __init__(self):
        self.calls = []

    def install(self):
        ap = world.mods().ap
        self._orig = ap.AnimalSpecies.feed_the_species
        rec, orig = self, self._orig

        def feed_the_species(self, grass_input, feed_input, is_ruminant=False):
            before = (self.animal_type, bool(is_ruminant), float(grass_input.kcals), float(feed_input.kcals),
                      float(self.NE_balance.kcals), float(self.current_population), float(self.population_fed))
            out = orig(self, grass_input, feed_input, is_ruminant)
            rec.calls.append(before + (float(out[0].kcals), float(out[1].kcals), float(self.NE_balance.kcals),
                                       float(self.population_fed)))
            return out

        ap.AnimalSpecies.feed_the_species = feed_the_species
        return self

    def uninstall(self):
        world.mods().ap.AnimalSpecies.feed_the_species = self._orig


class TableCache:
    """Optional speed-up: the five herd tables are parsed by the real readers once per child
    process; later calls get copies (main() mutates the head-count frame for overrides)."""

    NAMES = world.TableReads.NAMES

    def __init__(self):
        self.cache = {}
        self.real_reads = 0

    def install(self):
        ap = world.mods().ap
        self._saved = {}
        tc = self
        for name in self.NAMES:
            orig = getattr(ap.AnimalDataReader, name)
            self._saved[name] = orig

            def make(orig, name):
                def reader(*a, **k):
                    key = (name, a, tuple(sorted(k.items())))
                    if key not in tc.cache:
                        tc.cache[key] = orig(*a, **k)
                        tc.real_reads += 1
                    return tc.cache[key].copy(deep=True)

                return reader

            setattr(ap.AnimalDataReader, name, staticmethod(make(orig, name)))
        return self

    def uninstall(self):
        ap = world.mods().ap
        for name, orig in self._saved.items():
            setattr(ap.AnimalDataReader, name, staticmethod(orig))


LISTS = ["population", "slaughter", "births_animals_month", "transfer_population", "transfer_births",
         "retiring_milk_animals", "other_death_causes_other_than_starving", "other_death_starving", "other_death_total",
         "homekill_other_death_this_month", "homekill_healthy_this_month", "homekill_starving_this_month",
         "total_homekill_this_month", "population_starving_pre_slaughter"]


def _food(series):
    Food = world.mods().food.Food
    n = len(series)
    return Food(kcals=np.array(series, dtype=float), fat=np.zeros(n), protein=np.zeros(n),
                kcals_units=UNITS[0], fat_units=UNITS[1], protein_units=UNITS[2])


class Trace:
    pass


def run_herd(run):
    """One real herd run under the decided deliveries. Returns a Trace of plain data."""
    ap = world.mods().ap
    t = Trace()
    t.run = run
    N = run["months"]
    feed, grass = _food(run["feed"]), _food(run["grass"])
    ci = {"%s_head_start" % k: v for k, v in run["heads"].items()} or None
    t.table = per_head_table(run["country"]) if run["order"] == "table" else None
    rec = FeedRecorder().install()
    t.status, t.error = "ok", None
    try:
        with world.quiet():
            animals, feed_used, grass_used = ap.main(
                run["country"], feed, grass, run["strategy"], ci, 0,
                dict(t.table) if t.table is not None else None)
    except (Exception, SystemExit) as e:  # the model's own assertions: an abort, no verdict
        t.status, t.error = "abort:" + type(e).__name__, str(e)[:200]
        animals, feed_used, grass_used = [], None, None
    finally:
        rec.uninstall()
    t.calls = rec.calls
    t.herds = []
    hsh = hashlib.sha256()
    for a in animals:
        d = {"type": a.animal_type, "size_attr": a.animal_size, "digestion_attr": a.digestion_type,
             "function_attr": a.animal_function, "baseline_slaughter": float(a.baseline_slaughter),
             "eff": dict(a.digestion_efficiency), "LSU_factor_attr": float(a.LSU_factor),
             "key_attr": float(getattr(a, "net_kcals_gained_per_hour_slaughter_this_month", float("nan"))),
             "afc_attr": float(a.approximate_feed_conversion)}
        for name in LISTS:
            v = getattr(a, name, None)
            d[name] = None if v is None else np.array(v, dtype=float)
            if v is not None:
                hsh.update(name.encode())
                hsh.update(d[name].tobytes())
        hsh.update(a.animal_type.encode())
        t.herds.append(d)
    if t.status == "ok":
        t.feed_used = np.array(feed_used.kcals, dtype=float)
        t.grass_used = np.array(grass_used.kcals, dtype=float)
        hsh.update(t.feed_used.tobytes())
        hsh.update(t.grass_used.tobytes())
        t.inputs_untouched = bool(np.array_equal(feed.kcals, np.array(run["feed"], dtype=float))
                                  and np.array_equal(grass.kcals, np.array(run["grass"], dtype=float)))
    hsh.update(np.array([c[2:] for c in t.calls], dtype=float).tobytes())
    t.digest = hsh.hexdigest()
    t.months = N
    return t


def partial_months(t, rel=1e-9):
    """Months in which some herd is neither fully fed nor entirely unfed (by delivered energy)."""
    n = len(t.herds)
    out = set()
    for i, c in enumerate(t.calls):
        R = c[4]
        if R <= 0:
            continue
        got = EFF_GRASS * (c[2] - c[7]) + EFF_FEED * (c[3] - c[8])
        if rel * R < got < R * (1 - rel):
            out.add(i // n if n else 0)
    return out


def is_nontrivial(t):
    return t.status == "ok" and len(t.herds) >= 2 and t.months >= 24 and bool(partial_months(t))


def run_sample(run):
    out = {k: run[k] for k in ("country", "strategy", "months", "order", "heads")}
    out["program"] = {k: v for k, v in run["program"].items() if not k.endswith("_base")}
    out["feed_first6"], out["grass_first6"] = run["feed"][:6], run["grass"][:6]
    return out


class Verdicts:
    """Clause counting + de-duplicated violations (same interface as monitors.Verdicts; kept here so
    that engine H does not import the engine-P monitor module inside every child)."""

    def __init__(self, prop, ident_base=None):
        self.prop = prop
        self.violations = []
        self.clauses = {}
        self.base = ident_base or {}
        self._seen = set()
        self.max_resid = {}

    def ev(self, clause, n=1):
        self.clauses[clause] = self.clauses.get(clause, 0) + n

    def resid(self, clause, r):
        if r == r:
            self.max_resid[clause] = max(self.max_resid.get(clause, 0.0), float(r))

    def fail(self, clause, identity, witness, detail=""):
        ident = dict(self.base)
        ident.update(identity)
        key = (clause, core.digest(ident))
        if key in self._seen:
            return
        self._seen.add(key)
        self.violations.append(core.Violation(self.prop, clause, ident, witness, detail))

    def check(self, clause, ok, identity, witness, detail=""):
        self.ev(clause)
        if not ok:
            self.fail(clause, identity, witness() if callable(witness) else witness, detail)
        return ok


def execute(spec, prop, monitor):
    """Runs every herd run of the history in this (forked) process and applies `monitor`."""
    log = core.EventLog()
    d = world.enter_history("%s-%s" % (prop.lower(), spec["h"]))
    violations, nontrivial, clauses, probes, statuses, max_resid = [], [], {}, {}, {}, {}
    sim_months = aborts = evaluations = 0
    seen_classes = set()
    rfault = spec.get("read_fault")
    if rfault:
        cache = None
        tables = world.TableReads(log=log)
        tables.install()
    else:
        tables = None
        cache = TableCache().install()
    try:
        for i, run in enumerate(spec["runs"]):
            log.add("JOB_START", run=core.digest(run))
            if rfault and rfault["run"] == i:
                tables.start_job()
                tables.plan[tables.count + rfault["at"]] = rfault["kind"]
            for op in run["program"].get("ops", []):
                log.add("FAULT", kind="delivery_" + op["kind"], at=op["at"], target=op["target"])
            t = run_herd(run)
            st = t.status.split(":")[0]
            statuses[st] = statuses.get(st, 0) + 1
            if t.status != "ok":
                aborts += 1
                key = "abort:%s:%s" % (t.status, (t.error or "")[:50])
                probes[key] = probes.get(key, 0) + 1
                log.add("JOB_END", status=t.status, digest=t.digest)
                continue
            sim_months += t.months * len(t.herds)
            V = Verdicts(prop, {})
            monitor(t, V)
            nt = is_nontrivial(t)
            probes["runs_ok"] = probes.get("runs_ok", 0) + 1
            probes["order_" + run["order"]] = probes.get("order_" + run["order"], 0) + 1
            probes["strategy_" + run["strategy"]] = probes.get("strategy_" + run["strategy"], 0) + 1
            if run["heads"]:
                probes["runs_with_head_overrides"] = probes.get("runs_with_head_overrides", 0) + 1
            if not getattr(t, "inputs_untouched", True):
                probes["supply_arguments_mutated_by_main"] = probes.get("supply_arguments_mutated_by_main", 0) + 1
            core.merge_counts(probes, getattr(t, "probes", {}))
            if nt:
                evaluations += 1
                core.merge_counts(clauses, V.clauses)
                nontrivial.append(core.digest([run["country"], run["strategy"], run["months"], run["order"], run["heads"],
                                               run["feed"], run["grass"]]))
            else:
                probes["trivial_runs"] = probes.get("trivial_runs", 0) + 1
                probes["clause_evaluations_on_trivial_runs"] = (
                    probes.get("clause_evaluations_on_trivial_runs", 0) + sum(V.clauses.values()))
            for k, r in V.max_resid.items():
                max_resid[k] = max(max_resid.get(k, 0.0), r)
            for v in V.violations:
                log.add("MONITOR", prop=prop, clause=v.clause, identity=v.identity)
                key = (v.clause, core.digest(v.identity))
                if key in seen_classes:  # one witness per violation class (clause, identity) and history
                    continue
                seen_classes.add(key)
                v.witness = {"run": i, "country": run["country"], "strategy": run["strategy"], "months": run["months"],
                             "order": run["order"], "heads": run["heads"], "nontrivial": nt, "data": v.witness}
                violations.append(v.to_json())
            log.add("JOB_END", status=t.status, digest=t.digest)
        probes["real_table_reads"] = cache.real_reads if cache is not None else tables.count
        if tables is not None:
            tables.plan.clear()
    finally:
        (cache if cache is not None else tables).uninstall()
        world.leave_history(d)
    return {
        "violations": violations, "evaluations": evaluations, "nontrivial": nontrivial, "clauses": clauses,
        "faults": core.fault_counts(log), "probes": probes, "statuses": statuses, "log_digest": log.digest(),
        "sim_months": sim_months, "aborts": aborts, "max_resid": max_resid,
        "sample": {"runs": [run_sample(r) for r in spec["runs"][:2]]},
    }


# --------------------------------------------------------------------------- shrinking
def _sig(x, n=3):
    return float("%.*g" % (n, x))


def shrink(spec):
    runs = spec["runs"]
    if spec.get("read_fault"):
        # with a read fault the history matters: drop the fault, then drop runs after the faulted one, then runs
        # before it (one at a time), keeping the fault on the same run
        rf = spec["read_fault"]
        yield {"h": spec["h"], "prop": spec["prop"], "runs": runs}
        if len(runs) > rf["run"] + 1:
            yield {"h": spec["h"], "prop": spec["prop"], "runs": runs[:rf["run"] + 1], "read_fault": rf}
        for k in range(rf["run"]):
            if rf["run"] - 1 >= 1:
                yield {"h": spec["h"], "prop": spec["prop"], "runs": runs[:k] + runs[k + 1:], "read_fault": dict(rf, run=rf["run"] - 1)}
        return
    if len(runs) > 1:
        for r in runs:  # fewer runs per history: each run alone
            yield {"h": spec["h"], "prop": spec["prop"], "runs": [r]}
        return
    r = runs[0]

    def one(**kw):
        x = dict(r)
        x.update(kw)
        return {"h": spec["h"], "prop": spec["prop"], "runs": [x]}

    N = r["months"]
    prog = r["program"]
    for n in (24, max(24, N // 2), N - 12, N - 1):  # shorter horizon
        if 24 <= n < N:
            p2 = dict(prog, ops=[o for o in prog.get("ops", []) if o["at"] < n])
            for b in ("feed_base", "grass_base"):
                if b in p2:
                    p2[b] = p2[b][:n]
            yield one(months=n, feed=r["feed"][:n], grass=r["grass"][:n], program=p2)
    if r["heads"]:  # drop head-count perturbation
        yield one(heads={})
        for k in r["heads"]:
            yield one(heads={a: b for a, b in r["heads"].items() if a != k})
    note = {k: v for k, v in prog.items() if not k.endswith("_base")}
    note.update(ops=[], simplified=True)
    for name in ("feed", "grass"):  # simpler delivery schedule: zero, constant, round numbers
        s = r[name]
        if any(x != 0 for x in s):
            yield one(**{name: [0.0] * N, "program": note})
        if len(set(s)) > 1:
            nz = [x for x in s if x > 0]
            for c in ([s[0]] if s[0] > 0 else []) + ([sum(nz) / len(nz)] if nz else []):
                yield one(**{name: [float(c)] * N, "program": note})
        rounded = [_sig(x) for x in s]
        if rounded != s:
            yield one(**{name: rounded, "program": note})
    if prog.get("ops") and "feed_base" in prog:  # drop one delivery fault; series re-materialised from the rest
        for i in range(len(prog["ops"])):
            ops = [o for j, o in enumerate(prog["ops"]) if j != i]
            yield one(program=dict(prog, ops=ops), feed=apply_ops(prog["feed_base"], ops, "feed"),
                      grass=apply_ops(prog["grass_base"], ops, "grass"))
