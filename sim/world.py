"""World components of the simulator: scratch roots, repo import, SimClock, SimFS,
SimSolver (cbc | vertex + fail-stop faults), table-read faults, abort injector.

No file under /repo is modified: every seam is a module attribute or a method replaced
at run time inside the simulator process.
"""

import atexit
import datetime as _dt
import os
import shutil
import subprocess
import sys
import tempfile

from . import core

_STATE = {"root": None, "owner": None, "mods": None}


class SimAbort(BaseException):
    """Injected crash of the running job (like KeyboardInterrupt: not an Exception)."""


class SimFault(OSError):
    """Injected fail-stop I/O fault."""


# --------------------------------------------------------------------------- setup
def setup_repo():
    """Create the scratch root (a git repo whose data/ links to $VERIF_REPO/data), chdir
    into it and import the model from $VERIF_REPO as it is on disk. Idempotent."""
    if _STATE["mods"] is not None:
        return _STATE["mods"]
    repo = core.REPO_DIR
    base = os.environ.get("TMPDIR") or tempfile.gettempdir()
    root = tempfile.mkdtemp(prefix="verif-%d-" % os.getpid(), dir=base)
    subprocess.run(["git", "init", "-q", root], check=True, stdout=subprocess.DEVNULL)
    os.symlink(os.path.join(repo, "data"), os.path.join(root, "data"))
    os.symlink(os.path.join(repo, "scenarios"), os.path.join(root, "scenarios"))
    os.makedirs(os.path.join(root, "results"))
    _STATE["root"] = root
    _STATE["owner"] = os.getpid()
    atexit.register(_cleanup)
    os.chdir(root)
    if sys.path[0] != repo:
        sys.path.insert(0, repo)
    for k in [k for k in sys.modules if k == "src" or k.startswith("src.")]:
        del sys.modules[k]
    os.environ.setdefault("MPLBACKEND", "Agg")
    import warnings

    warnings.filterwarnings("ignore")
    devnull = open(os.devnull, "w")
    so = sys.stdout
    sys.stdout = devnull
    try:
        import pulp
        import src.food_system.animal_populations as ap
        import src.food_system.food as food
        import src.food_system.meat_and_dairy as mad
        import src.food_system.unit_conversions as uc
        import src.optimizer.extract_results as er
        import src.optimizer.interpret_results as ir
        import src.optimizer.optimizer as opt
        import src.optimizer.parameters as par
        import src.optimizer.validate_results as vr
        import src.scenarios.run_model_no_trade as rmnt
        import src.scenarios.run_scenario as rs
        import src.scenarios.run_scenarios_from_yaml as rsfy
        import src.scenarios.scenarios as sc
    finally:
        sys.stdout = so
    assert os.path.realpath(rs.__file__).startswith(os.path.realpath(repo)), (
        "model imported from %s, expected %s" % (rs.__file__, repo)
    )
    import types

    m = types.SimpleNamespace(
        pulp=pulp, ap=ap, food=food, mad=mad, uc=uc, er=er, ir=ir, opt=opt, par=par,
        vr=vr, rmnt=rmnt, rs=rs, sc=sc, rsfy=rsfy,
    )
    _STATE["mods"] = m
    return m


def _cleanup():
    if _STATE["root"] and _STATE["owner"] == os.getpid():
        shutil.rmtree(_STATE["root"], ignore_errors=True)


def mods():
    return _STATE["mods"] or setup_repo()


def scratch_root():
    return _STATE["root"]


def enter_history(tag):
    """Called in the forked child: own results dir + cwd; re-point the repo_root module
    globals (the results seam) at it. Returns the directory."""
    m = mods()
    d = os.path.join(_STATE["root"], "h-%s-%d" % (tag, os.getpid()))
    os.makedirs(os.path.join(d, "results"), exist_ok=True)
    if not os.path.exists(os.path.join(d, "data")):
        os.symlink(os.path.join(core.REPO_DIR, "data"), os.path.join(d, "data"))
    os.chdir(d)
    for mod in (m.ir, m.rs, m.rmnt, m.sc):
        mod.repo_root = d
    # solver temp files (PuLP writes <uuid>-pulp.mps/.sol) go into the history's own directory,
    # so that an aborted or killed job leaves nothing behind in the system temp dir
    tmp = os.path.join(d, "tmp")
    os.makedirs(tmp, exist_ok=True)
    _STATE["saved_tmp"] = (tempfile.tempdir, os.environ.get("TMPDIR"))
    tempfile.tempdir = tmp
    os.environ["TMPDIR"] = tmp
    return d


def leave_history(d):
    os.chdir(_STATE["root"])
    if "saved_tmp" in _STATE:
        tempfile.tempdir, old = _STATE.pop("saved_tmp")
        if old is None:
            os.environ.pop("TMPDIR", None)
        else:
            os.environ["TMPDIR"] = old
    shutil.rmtree(d, ignore_errors=True)


class quiet:
    """Silence the model's prints (they are not part of any property)."""

    def __enter__(self):
        self._so = sys.stdout
        self._dn = open(os.devnull, "w")
        sys.stdout = self._dn
        return self

    def __exit__(self, *a):
        sys.stdout = self._so
        self._dn.close()
        return False


# --------------------------------------------------------------------------- clock
class SimClock:
    """Simulated wall clock. Advanced only by the simulator (seeded step per read /
    seam crossing, scripted jumps). Installed as the `date` / `datetime` names of the two
    modules that read the clock."""

    def __init__(self, rng, start=None, log=None):
        self.rng = rng
        self.now = start or _dt.datetime(2026, 1, 1, 0, 0, 0)
        self.reads = 0
        self.script = {}  # read index -> ("jump", timedelta) | ("set", datetime)
        self.log = log
        self.max_step_s = 0.01

    def advance(self, seconds):
        self.now = self.now + _dt.timedelta(seconds=seconds)

    def read(self):
        ev = self.script.get(self.reads)
        if ev:
            if ev[0] == "jump":
                self.now = self.now + ev[1]
            elif ev[0] == "set":
                self.now = ev[1]
            if self.log is not None:
                self.log.add("FAULT", kind="clock_" + ev[0], at=self.reads)
        else:
            self.advance(self.rng.random() * self.max_step_s)
        self.reads += 1
        return self.now

    def install(self):
        m = mods()
        clock = self

        class FakeDate(_dt.date):
            @classmethod
            def today(cls):
                t = clock.read()
                return _dt.date(t.year, t.month, t.day)

        class FakeDateTimeCls(_dt.datetime):
            @classmethod
            def now(cls, tz=None):
                return clock.read()

        class FakeDateTimeMod:
            datetime = FakeDateTimeCls
            date = FakeDate
            timedelta = _dt.timedelta

        # the process-wide wall clock too: time.time() is the simulated clock (no read index, no random draw - a
        # deterministic 100 microseconds per call), so that code measuring elapsed wall time sees the jumps and the
        # "slow solver" advances. time.monotonic / perf_counter stay real (subprocess time-outs of PuLP use them).
        import time as _time

        epoch = _dt.datetime(1970, 1, 1)

        def sim_time():
            clock.now = clock.now + _dt.timedelta(microseconds=100)
            return (clock.now - epoch).total_seconds()

        self._saved_time = _time.time
        _time.time = sim_time
        self._saved = (m.ir.date, m.ir.datetime, m.rmnt.date, m.rmnt.datetime)
        m.ir.date = FakeDate
        m.ir.datetime = FakeDateTimeMod
        m.rmnt.date = FakeDate
        m.rmnt.datetime = FakeDateTimeMod

    def uninstall(self):
        m = mods()
        m.ir.date, m.ir.datetime, m.rmnt.date, m.rmnt.datetime = self._saved
        import time as _time

        _time.time = self._saved_time


# --------------------------------------------------------------------------- file system
class SimFS:
    """Owns result writes. DataFrame.to_csv(path) is routed through it. Faults are
    fail-stop: an error before the first byte, or a short write followed by an error."""

    def __init__(self, log=None):
        self.log = log
        self.writes = []  # (index, path, job_tag)
        self.plan = {}  # write index -> ("enospc"|"eio"|"eacces"|"short", k)
        self.job_tag = None
        self.fired = {}

    def install(self):
        import pandas as pd

        fs = self
        self._orig = pd.DataFrame.to_csv

        def to_csv(df, path_or_buf=None, *a, **k):
            handle = None
            if path_or_buf is not None and not isinstance(path_or_buf, (str, os.PathLike)):
                # a file object opened by the caller (e.g. a temp file that is renamed afterwards): still a
                # result write, as long as it has a name on disk
                nm = getattr(path_or_buf, "name", None)
                if not isinstance(nm, str):
                    return fs._orig(df, path_or_buf, *a, **k)
                handle, path_or_buf = path_or_buf, nm
            if path_or_buf is None:
                return fs._orig(df, path_or_buf, *a, **k)
            idx = len(fs.writes)
            path = os.fspath(path_or_buf)
            fs.writes.append((idx, path, fs.job_tag))
            if fs.log is not None:
                fs.log.add("SEAM", seam="write", name=os.path.basename(path), index=idx)
            f = fs.plan.get(idx)
            if f:
                kind = f[0]
                fs.fired[kind] = fs.fired.get(kind, 0) + 1
                if fs.log is not None:
                    fs.log.add("FAULT", kind="write_" + kind, at=idx)
                if kind == "short":
                    text = fs._orig(df, None, *a, **k)
                    part = text[: max(0, min(len(text) - 1, f[1]))]
                    if handle is not None:
                        handle.write(part.encode() if "b" in getattr(handle, "mode", "") else part)
                        handle.flush()
                    else:
                        with open(path, "w") as fh:
                            fh.write(part)
                    raise SimFault(5, "simulated short write", path)
                import errno

                code = {"enospc": errno.ENOSPC, "eio": errno.EIO, "eacces": errno.EACCES}[kind]
                raise SimFault(code, "simulated " + kind, path)
            return fs._orig(df, handle if handle is not None else path_or_buf, *a, **k)

        pd.DataFrame.to_csv = to_csv

    def uninstall(self):
        import pandas as pd

        pd.DataFrame.to_csv = self._orig


class TableReads:
    """Seam around the data-table reads: pandas.read_csv calls whose path lies under data/ (the five
    herd tables read on every herd run, the combined country table). It sits at the lowest Python
    level on purpose: a cache that the code under test might put above the parser is then filled with
    what the (faulted) read returned. Faults: fail-stop errors, and 'truncated' = transient torn read
    (the file was being rewritten while THIS read happened; pandas parses the first half)."""

    # the five reader functions of the herd tables (used by engine H's in-process table cache)
    NAMES = [
        "read_animal_population_data",
        "read_animal_nutrition_data",
        "read_animal_options",
        "read_animal_regional_factors",
        "read_country_data",
    ]

    def __init__(self, log=None):
        self.log = log
        self.count = 0
        self.by_name = {}
        self.plan = {}  # read index -> kind   |   (basename, nth read of that file since the job started) -> kind
        self.fired = {}
        self.job_base = {}

    def start_job(self):
        self.job_base = dict(self.by_name)

    def install(self):
        import pandas as pd

        tr = self
        self._orig = pd.read_csv
        data_marker = os.sep + "data" + os.sep

        def read_csv(path, *a, **k):
            p = os.fspath(path) if isinstance(path, (str, os.PathLike)) else None
            if p is None or data_marker not in os.path.realpath(p) + os.sep:
                return tr._orig(path, *a, **k)
            name = os.path.basename(p)
            idx = tr.count
            tr.count += 1
            nth = tr.by_name.get(name, 0) - tr.job_base.get(name, 0)
            tr.by_name[name] = tr.by_name.get(name, 0) + 1
            if tr.log is not None:
                tr.log.add("SEAM", seam="read", name=name, index=idx)
            f = tr.plan.pop(idx, None) or tr.plan.pop((name, nth), None)
            if f:
                tr.fired[f] = tr.fired.get(f, 0) + 1
                if tr.log is not None:
                    tr.log.add("FAULT", kind="read_" + f, at=idx, name=name)
                if f == "truncated":
                    df = tr._orig(path, *a, **k)
                    return df.iloc[: max(1, len(df) // 2)].copy()
                if f == "enoent":
                    raise FileNotFoundError(2, "simulated missing table", name)
                if f == "parse":
                    raise pd.errors.ParserError("simulated parser error in " + name)
                raise SimFault(5, "simulated read error", name)
            return tr._orig(path, *a, **k)

        pd.read_csv = read_csv

    def uninstall(self):
        import pandas as pd

        pd.read_csv = self._orig


# --------------------------------------------------------------------------- solver
class SimSolver:
    """Replacement for pulp.PULP_CBC_CMD (looked up at call time by the optimizer).

    mode 'cbc'   : the real CBC binary through PuLP's own code (real code path).
    mode 'vertex': in-process HiGHS on the same LpProblem; after the optimum is found a
                   seeded random objective is re-optimised over the optimal face, and that
                   vertex is returned: a legal alternative answer (stub for CBC).
    plan: solve index -> fault: 'exec' (PulpSolverError before solving), 'status:<n>'
          (non-optimal status returned, variables untouched), 'slow' (clock advance).
    """

    def __init__(self, mode="cbc", rng=None, log=None, clock=None):
        self.mode = mode
        self.rng = rng
        self.log = log
        self.clock = clock
        self.count = 0
        self.plan = {}
        self.fired = {}
        self.vertex_stats = {"solves": 0, "alt_moved": 0, "fallback_cbc": 0}
        self.observer = None  # callable(lp, solve index): sees every problem handed to the solver, before faults

    def install(self):
        m = mods()
        self._orig = m.pulp.PULP_CBC_CMD
        sim = self

        def factory(*a, **k):
            return _SolverProxy(sim, sim._orig(*a, **k))

        m.pulp.PULP_CBC_CMD = factory

    def uninstall(self):
        mods().pulp.PULP_CBC_CMD = self._orig


class _SolverProxy:
    def __init__(self, sim, real):
        self.sim = sim
        self.real = real

    def __getattr__(self, name):
        return getattr(self.real, name)

    def actualSolve(self, lp, **kw):
        sim = self.sim
        m = mods()
        idx = sim.count
        sim.count += 1
        if sim.log is not None:
            sim.log.add("SEAM", seam="solve", name=lp.name, index=idx)
        if sim.observer is not None:
            sim.observer(lp, idx)
        f = sim.plan.get(idx)
        if f:
            sim.fired[f.split(":")[0]] = sim.fired.get(f.split(":")[0], 0) + 1
            if sim.log is not None:
                sim.log.add("FAULT", kind="solver_" + f, at=idx)
            if f == "exec":
                raise m.pulp.PulpSolverError("simulated: cbc could not be executed")
            if f.startswith("status:"):
                st = int(f.split(":")[1])
                lp.assignStatus(st)
                return st
            if f == "slow" and sim.clock is not None:
                sim.clock.advance(60.0 * (1 + sim.rng.randrange(600)))
            if f.startswith("clock:") and sim.clock is not None:
                # the wall clock steps (NTP correction, VM pause / resume) while this solve runs; harmless by itself
                sim.clock.advance(float(f.split(":")[1]))
            if f.startswith("iterate:"):
                # the solver stops with a non-optimal status AFTER writing its last (not feasible, not optimal)
                # iterate into the variables - what PuLP does when CBC reports "Infeasible" / "Not Solved" with a
                # solution section. Fail-stop for the caller: the status says the values must not be used.
                st = int(f.split(":")[1])
                self.real.actualSolve(lp, **kw)
                for v in lp.variables():
                    if v.varValue is not None and sim.rng.random() < 0.3:
                        v.varValue = v.varValue * (0.9 + 0.2 * sim.rng.random())
                lp.assignStatus(st)
                return st
        if sim.mode == "vertex":
            from . import lpsolve

            st = lpsolve.solve_pulp_vertex(lp, sim.rng, sim.vertex_stats)
            if st is not None:
                return st
            sim.vertex_stats["fallback_cbc"] += 1
        return self.real.actualSolve(lp, **kw)


# --------------------------------------------------------------------------- abort injector
class AbortInjector:
    """Raises SimAbort at the n-th 'line' event inside files under <repo>/src."""

    def __init__(self, n, log=None):
        self.n = n
        self.seen = 0
        self.log = log
        self.fired = False
        self._cache = {}
        self.prefix = os.path.join(os.path.realpath(core.REPO_DIR), "src") + os.sep

    def _local(self, frame, event, arg):
        if event == "line":
            self.seen += 1
            if self.seen == self.n:
                self.fired = True
                if self.log is not None:
                    self.log.add(
                        "FAULT", kind="abort_line", at=self.n,
                        where="%s:%d" % (os.path.basename(frame.f_code.co_filename), frame.f_lineno),
                    )
                sys.settrace(None)
                raise SimAbort("simulated crash at line event %d" % self.n)
        return self._local

    def _global(self, frame, event, arg):
        fn = frame.f_code.co_filename
        hit = self._cache.get(fn)
        if hit is None:
            hit = fn.startswith(self.prefix) or os.path.realpath(fn).startswith(self.prefix)
            self._cache[fn] = hit
        return self._local if hit else None

    def __enter__(self):
        sys.settrace(self._global)
        return self

    def __exit__(self, *a):
        sys.settrace(None)
        return False
