"""Generic check driver: seeded histories -> forked execution -> aggregation ->
known-findings filter -> minimisation -> replay file -> evidence -> exit code.

A check module provides:
    ID, LEVEL, RULE, ASSUMPTIONS, COMPONENTS
    TIERS = {"quick": {"histories": n, "budget_s": s, "timeout": s}, "thorough": {...}}
    generate(seed, h, tier) -> spec (JSON-able dict; everything the history will do)
    execute(spec) -> result dict (runs in a freshly forked child) with keys
        violations: [Violation.to_json()], evaluations: int, nontrivial: [digest,...],
        clauses: {clause: evaluations}, faults: {kind: fired}, probes: {...},
        log_digest: str, sim_months: int, aborts: int
    shrink(spec) -> iterable of smaller candidate specs (may be empty)
    optional: prepare() (parent, before forking), main_clauses (vacuity guard),
              finish(agg) -> extra violations over the whole run
"""

import json
import os
import sys
import time

from . import core


def _exec_wrapper(args):
    mod, spec = args
    return mod.execute(spec)


def _fmt_progress(prop):
    def p(done, total):
        if done % 16 == 0 or done == total:
            print("  [%s] %d/%d histories" % (prop, done, total), file=sys.stderr, flush=True)

    return p


def run_specs(mod, specs, timeout):
    return core.run_forked([(mod, s) for s in specs], _exec_wrapper, timeout=timeout)


def classify(violations, findings):
    """-> (unknown [Violation], known {record index: count})"""
    unknown, known = [], {}
    for v in violations:
        hit = None
        for i, rec in enumerate(findings):
            if core.finding_matches(rec, v):
                hit = i
                break
        if hit is None:
            unknown.append(v)
        else:
            known[hit] = known.get(hit, 0) + 1
    return unknown, known


def _matches(v, target):
    """target: (prop, clause) or ((prop, clause), identity digest)"""
    if isinstance(target[0], tuple):
        return v.key() == target[0] and core.digest(v.identity) == target[1]
    return v.key() == target


def minimise(mod, spec, target_key, findings, timeout, budget_s=240, log=print):
    """Greedy shrinking while a violation of the same (property, clause) class that is
    not a known finding persists. Candidates of one round are evaluated in parallel."""
    t0 = time.monotonic()
    cur = spec
    rounds = 0
    while time.monotonic() - t0 < budget_s and rounds < 40:
        cands = list(mod.shrink(cur))
        if not cands:
            break
        cands = cands[:32]
        res = run_specs(mod, cands, timeout)
        picked = None
        for c, (st, val) in zip(cands, res):
            if st != "ok":
                continue
            vs = [core.Violation.from_json(v) for v in val["violations"]]
            unk, _ = classify(vs, findings)
            if any(_matches(v, target_key) for v in unk):
                picked = c
                break
        if picked is None:
            break
        cur = picked
        rounds += 1
    return cur, rounds


def run_check(mod, tier, seed, replay=None):
    t0 = time.monotonic()
    prop = mod.ID
    findings = core.load_known_findings()
    cfg = mod.TIERS[tier]
    timeout = cfg.get("timeout", 300)
    if hasattr(mod, "prepare"):
        mod.prepare()

    # ------------------------------------------------------------------ replay mode
    if replay:
        with open(replay) as f:
            rp = json.load(f)
        spec = rp["spec"]
        (st, val), = run_specs(mod, [spec], timeout)
        if st != "ok":
            print("HARNESS-ERROR property=%s replay failed to execute: %s" % (prop, val))
            return core.EXIT_HARNESS
        vs = [core.Violation.from_json(v) for v in val["violations"]]
        want = (rp["expected"]["property"], rp["expected"]["clause"])
        # recorded findings are reported as such in a replay too and never count as the reproduction
        unknown, known = classify(vs, findings)
        for idx, cnt in sorted(known.items()):
            rec = findings[idx]
            print("KNOWN-FINDING: property=%s clause=%s %s (seen %d times in this replay)" % (prop, rec["clause"], rec["what"], cnt))
        same = [v for v in unknown if v.key() == want]
        exact = [v for v in same if core.digest(v.identity) == core.digest(rp["expected"].get("identity"))]
        same = exact or same
        if same:
            ok_digest = val["log_digest"] == rp["expected"].get("log_digest")
            print("REPLAY reproduced property=%s clause=%s log_digest_match=%s" % (prop, want[1], ok_digest))
            print(json.dumps(same[0].to_json(), indent=1)[:3000])
            print("VIOLATION property=%s replay=%s" % (prop, replay))
            return core.EXIT_VIOLATION
        print("REPLAY did not reproduce property=%s clause=%s (other violations now: %s)" % (prop, want[1], [v.clause for v in unknown]))
        return core.EXIT_OK

    # ------------------------------------------------------------------ exploration
    n_hist = cfg["histories"]
    if hasattr(mod, "n_histories"):
        n_hist = min(n_hist, mod.n_histories(tier))
    # VERIF_BUDGET_SCALE stretches the wall budget (self-tests that run several checks side by side on one machine)
    budget = cfg.get("budget_s", 1e9) * float(os.environ.get("VERIF_BUDGET_SCALE", "1") or 1)
    batch = cfg.get("batch", 32)
    agg = {
        "evaluations": 0, "nontrivial": set(), "clauses": {}, "faults": {}, "probes": {},
        "sim_months": 0, "aborts": 0, "histories": 0, "harness": [], "samples": [],
        "log_digests": [], "statuses": {},
    }
    all_violations = []  # (h, spec, Violation)
    h = 0
    while h < n_hist and (time.monotonic() - t0) < budget:
        hs = list(range(h, min(n_hist, h + batch)))
        specs = [mod.generate(seed, i, tier) for i in hs]
        res = run_specs(mod, specs, timeout)
        for i, spec, (st, val) in zip(hs, specs, res):
            agg["histories"] += 1
            if st != "ok":
                agg["harness"].append({"history": i, "status": st, "detail": str(val)[-1500:]})
                continue
            agg["evaluations"] += val.get("evaluations", 0)
            agg["nontrivial"].update(val.get("nontrivial", []))
            core.merge_counts(agg["clauses"], val.get("clauses", {}))
            core.merge_counts(agg["faults"], val.get("faults", {}))
            core.merge_counts(agg["probes"], val.get("probes", {}))
            core.merge_counts(agg["statuses"], val.get("statuses", {}))
            for k_, r_ in val.get("max_resid", {}).items():
                agg.setdefault("max_resid", {})[k_] = max(agg.setdefault("max_resid", {}).get(k_, 0.0), r_)
            agg["sim_months"] += val.get("sim_months", 0)
            agg["aborts"] += val.get("aborts", 0)
            agg["log_digests"].append(val.get("log_digest"))
            if len(agg["samples"]) < 3:
                agg["samples"].append(val.get("sample", spec))
            for v in val["violations"]:
                all_violations.append((i, spec, core.Violation.from_json(v)))
        h = hs[-1] + 1
        print("  [%s] %d/%d histories, %.0fs" % (prop, h, n_hist, time.monotonic() - t0), file=sys.stderr, flush=True)

    extra = []
    if hasattr(mod, "finish"):
        extra = mod.finish(agg) or []
        for v in extra:
            all_violations.append((-1, None, v))

    unknown, known = classify([v for _, _, v in all_violations], findings)
    for idx, cnt in sorted(known.items()):
        rec = findings[idx]
        print("KNOWN-FINDING: property=%s clause=%s %s (seen %d times in this run)" % (prop, rec["clause"], rec["what"], cnt))

    rc = core.EXIT_OK
    replay_paths = []
    if unknown:
        rc = core.EXIT_VIOLATION
        seen, seen_clause = set(), set()
        each = bool(getattr(mod, "SHRINK_EACH_IDENTITY", False))
        def _cls(v):
            return (v.key(), core.digest({k: x for k, x in v.identity.items() if k != "iso3"}))

        first_of_class, rest, cls_seen = [], [], set()
        for item in all_violations:
            if item[2] in unknown and _cls(item[2]) not in cls_seen:
                cls_seen.add(_cls(item[2]))
                first_of_class.append(item)
            else:
                rest.append(item)
        for hidx, spec, v in first_of_class + rest:
            vid = (v.key(), core.digest(v.identity))
            if v not in unknown or vid in seen:
                continue
            if len(seen) >= int(getattr(mod, "MAX_REPORTS", 8)):
                break
            seen.add(vid)
            do_shrink = each or v.key() not in seen_clause
            seen_clause.add(v.key())
            small, rounds = (spec, 0)
            if do_shrink and spec is not None and hasattr(mod, "shrink") and not os.environ.get("VERIF_NO_SHRINK"):
                target = (v.key(), core.digest(v.identity)) if each else v.key()
                small, rounds = minimise(mod, spec, target, findings, timeout, budget_s=cfg.get("shrink_s", 180))
            vv, logd = v, None
            if small is not None:
                (st, val), = run_specs(mod, [small], timeout)
                if st == "ok":
                    logd = val.get("log_digest")
                    for x in val["violations"]:
                        x = core.Violation.from_json(x)
                        if x.key() == v.key() and (not each or core.digest(x.identity) == core.digest(v.identity)) and classify([x], findings)[0]:
                            vv = x
                            break
            path = core.write_replay(
                prop, seed, len(replay_paths),
                {
                    "property": prop, "seed": seed, "history": hidx, "shrink_rounds": rounds, "spec": small,
                    "expected": {"property": vv.prop, "clause": vv.clause, "identity": vv.identity, "log_digest": logd},
                    "violation": vv.to_json(),
                    "replay_cmd": "./check %s --replay <this file>" % prop,
                },
            )
            replay_paths.append(path)
            print("violation: clause=%s identity=%s detail=%s" % (vv.clause, json.dumps(core.jsonable(vv.identity)), vv.detail[:400]))
            print("VIOLATION property=%s replay=%s" % (prop, path))

    # vacuity guard and harness errors
    main_clauses = getattr(mod, "MAIN_CLAUSES", [])
    vac = [c for c in main_clauses if agg["clauses"].get(c, 0) == 0]
    n_harness = len(agg["harness"])
    if rc == core.EXIT_OK:
        if vac:
            print("HARNESS-ERROR property=%s vacuous: clauses never evaluated: %s" % (prop, vac))
            rc = core.EXIT_HARNESS
        elif n_harness > max(1, agg["histories"] // 10):
            print("HARNESS-ERROR property=%s %d of %d histories failed to execute: %s" % (
                prop, n_harness, agg["histories"], json.dumps(agg["harness"][:2])[:2000]))
            rc = core.EXIT_HARNESS
        elif agg["aborts"] > max(8, sum(agg["statuses"].values()) // 4):
            # jobs that met NO injected fault and still raised get no verdict; on the unchanged tree that is
            # < 1 % of the jobs (the repo's own "OPTIMIZATION FAILED", C16's subject). More than a quarter means the
            # run lost its verdicts to something else (e.g. the scratch root removed under it) - never a quiet pass.
            print("HARNESS-ERROR property=%s %d of %d jobs raised without an injected fault and got no verdict" % (
                prop, agg["aborts"], sum(agg["statuses"].values())))
            rc = core.EXIT_HARNESS
        elif agg["histories"] == 0 or agg["evaluations"] == 0:
            print("HARNESS-ERROR property=%s nothing was evaluated" % prop)
            rc = core.EXIT_HARNESS

    wall = time.monotonic() - t0
    coverage = {
        "evaluations": agg["evaluations"],
        "distinct_nontrivial": len(agg["nontrivial"]),
        "rule": mod.RULE,
        "samples": agg["samples"],
        "histories": agg["histories"],
        "histories_per_hour": round(agg["histories"] / wall * 3600, 1) if wall > 0 else 0,
        "seeds": [seed],
        "simulated_model_months": agg["sim_months"],
        "clause_evaluations": agg["clauses"],
        "fault_kinds_fired": agg["faults"],
        "probes": agg["probes"],
        "job_statuses": agg["statuses"],
        "jobs_aborted_without_verdict": agg["aborts"],
        "distinct_history_logs": len(set(agg["log_digests"])),
        "run_digest": core.digest(sorted(x for x in agg["log_digests"] if x)),
        "components": getattr(mod, "COMPONENTS", {}),
        "harness_error_count": n_harness,
        "harness_errors": agg["harness"][:5],
        "max_residuals": agg.get("max_resid", {}),
        "unknown_violation_identities": [dict(clause=v.clause, **core.jsonable(v.identity)) for v in unknown][:400],
        "known_findings_seen": {findings[i]["what"][:80]: c for i, c in known.items()},
        "exhaustive": bool(cfg.get("exhaustive", False)) and h >= n_hist and not agg["harness"],
    }
    core.write_evidence(prop, tier, seed, mod.LEVEL, coverage, mod.ASSUMPTIONS, wall, len(unknown),
                        extra={"replays": replay_paths})
    print("%s tier=%s seed=%s histories=%d harness_errors=%d evaluations=%d distinct_nontrivial=%d violations=%d known=%d wall=%.1fs exit=%d" % (
        prop, tier, seed, agg["histories"], n_harness, agg["evaluations"], len(agg["nontrivial"]), len(unknown),
        sum(known.values()), wall, rc))
    if n_harness:
        print("first harness error: %s" % json.dumps(agg["harness"][0])[-1500:])
    return rc
