import sys, json, collections
sys.path.insert(0,'/verif')
import importlib
from sim import runner, core
mod=importlib.import_module('sim.checks.'+sys.argv[1])
n=int(sys.argv[2]); seed=int(sys.argv[3]) if len(sys.argv)>3 else 20260926
mod.prepare()
specs=[mod.generate(seed,h,'quick') for h in range(n)]
res=core.run_forked([(mod,s) for s in specs], runner._exec_wrapper)
cnt=collections.Counter(); ex={}
for (st,val) in res:
    if st!='ok': print(st,val[-600:]); continue
    for v in val['violations']:
        k=(v['clause'], json.dumps(v['identity'],sort_keys=True))
        cnt[k]+=1; ex.setdefault(k,v)
for k,c in sorted(cnt.items()): print(c,k)
if len(sys.argv)>4:
    for k,v in ex.items():
        if sys.argv[4] in k[0] or sys.argv[4] in k[1]:
            print(json.dumps(v,indent=1)[:2500])
