"""Finding F06 (C08 reference / year_block_step, grass). With a 48-month horizon the last four
months (January-April of model year 5) take the grass ratio of year 4, although a ratio for
year 5 exists; outdoor crops use year 5 for the same months."""
import numpy as np
from _env import M  # noqa: F401
from src.food_system.food import Food
from src.food_system.meat_and_dairy import MeatAndDairy

Food.conversions.set_nutrition_requirements(kcals_daily=2100, fat_daily=47, protein_daily=51, include_fat=False,
                                            include_protein=False, population=1e7)
c = {"ADD_MILK": True, "ADD_MEAT": True, "NMONTHS": 48, "HUMAN_INEDIBLE_FEED_BASELINE_MONTHLY": 1.0,
     "TONS_MILK_ANNUAL": 1, "TONS_CHICKEN_AND_PORK_ANNUAL": 1, "TONS_BEEF_ANNUAL": 1, "INITIAL_MILK_CATTLE": 1,
     "INIT_SMALL_ANIMALS": 1, "INIT_MEDIUM_ANIMALS": 1, "INIT_LARGE_ANIMALS_WITH_MILK_COWS": 2,
     "WASTE_DISTRIBUTION": {"MEAT": 0, "MILK": 0}, "WASTE_RETAIL": 0}
for i in range(1, 11):
    c["RATIO_GRASSES_YEAR%d" % i] = float(i)  # the ratio of model year i is i
g = np.array(MeatAndDairy(c).human_inedible_feed_dry_caloric_tons_list)
print("grass ratio used in months 36..47:", g[36:48])
assert len(g) == 48 and (g[44:48] == 4).all(), "not reproduced"
print("REPRODUCED: months 44-47 (model year 5) use the ratio of year 4")
