"""Finding F05 (C08 delay_shift). The configured industrial-foods start-up delay is applied
twice to methane single-cell protein: delaying it by k months shifts the series by 2k months
(cellulosic sugar, configured by the same delay, shifts by k). A shipped test pins delay*2+12."""
import numpy as np
from _env import M  # noqa: F401  (imports the real model from $VERIF_REPO)
from src.food_system.food import Food
from src.food_system.methane_scp import MethaneSCP
from src.food_system.cellulosic_sugar import CellulosicSugar

Food.conversions.set_nutrition_requirements(kcals_daily=2100, fat_daily=47, protein_daily=51, include_fat=False,
                                            include_protein=False, population=7.7e9)
first = {}
for d in (0, 3, 5):
    c = {"INDUSTRIAL_FOODS_SLOPE_MULTIPLIER": 1, "NMONTHS": 48, "POP": 7.7e9, "GLOBAL_POP": 7.7e9,
         "WASTE_DISTRIBUTION": {"SUGAR": 0}, "WASTE_RETAIL": 0, "SCP_GLOBAL_PRODUCTION_FRACTION": 1,
         "CS_GLOBAL_PRODUCTION_FRACTION": 1, "ADD_METHANE_SCP": True, "ADD_CELLULOSIC_SUGAR": True,
         "DELAY": {"INDUSTRIAL_FOODS_MONTHS": d}}
    scp = MethaneSCP(c)
    scp.calculate_monthly_scp_caloric_production(c)
    cs = CellulosicSugar(c)
    cs.calculate_monthly_cs_production(c)
    first[d] = (int(np.nonzero(scp.production_kcals_scp_per_month)[0][0]), int(np.nonzero(cs.production.kcals)[0][0]))
    print("delay %d: first SCP month %d, first cellulosic-sugar month %d" % (d, first[d][0], first[d][1]))
assert first[3][0] - first[0][0] == 6 and first[3][1] - first[0][1] == 3, "not reproduced"
print("REPRODUCED: a 3-month delay shifts methane SCP by 6 months (cellulosic sugar by 3)")
