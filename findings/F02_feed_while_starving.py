"""Finding F02 (C03 starving_no_feed). The final result feeds far less than the configured
minimum share, yet human-edible food worth more than a month's need goes to feed/biofuel
in early months: round 2 pins human consumption month by month at min(round-1 result, T)
and hands the monthly surplus to feed."""
import numpy as np
from _env import M, run

opts = {"scale": "country", "scenario": "methane_scp", "seasonality": "country", "grasses": "baseline",
        "crop_disruption": "country_nuclear_winter", "fish": "baseline", "waste": "zero", "nutrition": "baseline",
        "intake_constraints": "enabled", "stored_food": "baseline", "ratio_stocks_untouched": "baseline_no_stored_between_years",
        "shutoff": "long_delayed_shutoff", "cull": "dont_eat_culled", "fat": "not_required", "protein": "not_required",
        "meat_strategy": "feed_only_ruminants", "NMONTHS": 120, "MINIMUM_PERCENT_FED_BEFORE_NONHUMAN_CONSUMPTION_ALLOWED": 5}
r = run("UKR", opts)
feed = np.array(r.feed_sum_kcals_equivalent.kcals) + np.array(r.biofuels_sum_kcals_equivalent.kcals)
print("final percent fed %.3f %% (threshold 5 %%); feed+biofuel from human-edible food, first months (kcal/person/day): %s"
      % (r.percent_people_fed, np.round(feed[:4], 1)))
assert r.percent_people_fed < 4.9 and feed.max() > 2.1, "not reproduced"
print("REPRODUCED: feed/biofuel allocated although the final result is below the minimum share")
