"""Finding F03 (C03 final_reaches_threshold / final_not_below_round1). The no-feed round
feeds 520 % of the population, the configured minimum share is 100 %, yet the final result
is 93.5 %: the feed charged in round 3 (round-2 feed, bumped by half the meat increase
although culled meat is not eaten in this scenario) leaves the worst month below the
threshold. The repo's own validator notices such cases and only prints."""
from _env import M, run

opts = {"GRASSES_PRODUCTION_MULTIPLIER": 2, "NMONTHS": 120, "crop_disruption": "country_nuclear_winter",
        "cull": "dont_eat_culled", "fat": "not_required", "fish": "nuclear_winter", "grasses": "all_crops_die_instantly",
        "intake_constraints": "disabled_for_humans", "meat_strategy": "feed_only_ruminants", "nutrition": "catastrophe",
        "protein": "not_required", "ratio_stocks_untouched": "baseline_no_stored_between_years", "scale": "country",
        "scenario": "all_resilient_foods_and_more_area", "seasonality": "country", "shutoff": "continued",
        "stored_food": "zero", "waste": "zero"}
round1 = []
orig = M.rs.ScenarioRunner.run_round_1


def spy(self, *a, **k):
    out = orig(self, *a, **k)
    round1.append(out[1])
    return out


M.rs.ScenarioRunner.run_round_1 = spy
r = run("ARG", opts)
print("no-feed round: %.1f %%   threshold: 100 %%   final: %.2f %%" % (round1[0], r.percent_people_fed))
assert round1[0] >= 100 and r.percent_people_fed < 99.9, "not reproduced"
print("REPRODUCED: the no-feed round reaches the minimum share but the final result falls below it")
