"""Finding F01 (C01 meat_ledger / C02 optimum_physically_achievable).
Optimizer.add_meat_to_model caps each month's meat by the RUNNING slaughter total and the
horizon total, not the cumulative consumption: the solved allocation eats meat before it
has been slaughtered. Shown on the shipped scenario argentina.yaml:argentina_net_baseline."""
import numpy as np
from _env import M, run, workload

captured = []
orig = M.opt.Optimizer.optimize_to_humans


def spy(self, consts, time_consts):
    out = orig(self, consts, time_consts)
    eaten = np.array([v.varValue for v in out[1]["meat_eaten"]]) / (1 - consts["MEAT_WASTE_RETAIL"] / 100)
    captured.append((eaten, np.array(time_consts["each_month_meat_slaughtered"].kcals)))
    return out


M.opt.Optimizer.optimize_to_humans = spy
opts = [o for n, _c, o in workload.yaml_presets() if n == "argentina:argentina_net_baseline"][0]
run("ARG", opts)
eaten, slaughtered = captured[0]
gap = np.cumsum(eaten) - np.cumsum(slaughtered)
m = int(np.argmax(gap))
print("round 1, month %d: cumulative meat eaten %.1f > cumulative slaughtered %.1f (billion kcals); total slaughtered %.1f"
      % (m, np.cumsum(eaten)[m], np.cumsum(slaughtered)[m], slaughtered.sum()))
assert gap[m] > 1.0, "not reproduced"
print("REPRODUCED: meat is eaten before it exists")
