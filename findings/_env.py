"""Shared by the reproduction scripts: scratch cwd (so result files do not land in /repo)
and import of the real model. No harness oracle is used by any script in this directory."""
import os, sys
sys.path.insert(0, os.path.dirname(os.path.dirname(os.path.abspath(__file__))))
from sim import world, workload  # noqa: E402
M = world.setup_repo()
world.enter_history("finding")


def country_row(iso3):
    import pandas as pd
    t = pd.read_csv(os.path.join(os.environ.get("VERIF_REPO", "/repo"), "data/no_food_trade/computer_readable_combined.csv"))
    for _i, row in t.iterrows():
        if row["iso3"] == iso3:
            return row


def run(iso3, options, title="finding"):
    """Runs one country job exactly like run_model_no_trade does; returns the Interpreter."""
    with world.quiet():
        out = M.rmnt.ScenarioRunnerNoTrade().run_model_no_trade(
            title=title, create_pptx_with_all_countries=False, scenario_option=dict(options),
            countries_list=[iso3], return_results=True)
    return list(out[3].values())[0]
