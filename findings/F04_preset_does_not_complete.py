"""Finding F04 (C16 completes). Shipped / documented presets that end in the repo's own
'OPTIMIZATION FAILED' assertion for particular countries. Usage: F04... [ISO3 PRESET]"""
import sys
from _env import M, run, workload
from sim.checks import c16

iso3, preset = (sys.argv[1], sys.argv[2]) if len(sys.argv) > 2 else ("SLV", "baseline_USA:baseline_model_by_country~scenario=all_resilient_foods_and_more_area")
c16.grid()
opts = c16._GRID["presets"][preset]
try:
    r = run(iso3, opts)
    print("completed: %.2f %%" % r.percent_people_fed)
    print("NOT REPRODUCED")
except BaseException as e:
    print("%s under preset %s raises %s: %s" % (iso3, preset, type(e).__name__, e))
    print("REPRODUCED: a documented preset does not run to completion")
